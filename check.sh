#!/bin/sh
# ./check.sh <property> [quick|thorough]   (cwd = /verif)
cd "$(dirname "$0")"
exec python3 kv/kv.py check "$1" --tier "${2:-${VERIF_TIER:-quick}}"
