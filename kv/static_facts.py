"""static_facts.py -- (S) supporting syntactic facts about /repo's working tree.

A fact never decides a property alone; it supplies a whole-program premise a
contract needs (e.g. "no other function writes ->s[...]").  Comments, string
literals and preprocessor lines are blanked before matching.
kinds:
  sites_equal : the set of enclosing functions (file:function) in which `pattern`
                matches must equal `expected`
  absent      : `pattern` must not match anywhere in `files`
  present     : `pattern` must match at least once in each of `files`
  static_storage : the complete list of objects with static storage duration (file scope objects and
                function-local statics) in `files` must equal `expected`
  absent_in_region : inside `function` of files[0], after the first match of `after`, `pattern` must not occur
  order       : inside function `function` of `files[0]`, the regexes in `sequence`
                must all match, in that order
"""
import re, os, glob
import inject as inj


def _files(repo, pats):
    out = []
    for p in pats:
        out += sorted(glob.glob(os.path.join(repo, p)))
    return out


def enclosing_function(blank, pos):
    """name of the function whose body contains pos (depth-0 '{' scan)"""
    depth = 0
    last_open = None
    i = 0
    # walk and remember the depth-0 '{' that is still open at pos
    for m in re.finditer(r'[{}]', blank[:pos]):
        if m.group() == '{':
            if depth == 0:
                last_open = m.start()
            depth += 1
        else:
            depth -= 1
    if depth <= 0 or last_open is None:
        return '<file scope>'
    head = blank[:last_open]
    mm = list(re.finditer(r'(\w+)\s*\([^;{}]*\)\s*$', head))
    if mm:
        return mm[-1].group(1)
    return '<unknown>'


def static_storage(path):
    """objects with static storage duration declared in a C file: file-scope object declarations and
    function-local `static` objects (comments / strings / preprocessor lines blanked)"""
    src = open(path, errors='replace').read()
    b = inj.blank_comments_strings(src)
    out = []
    depth = 0
    i = 0
    n = len(b)
    stmt_start = 0
    head = ''
    while i < n:
        c = b[i]
        if c == '{':
            if depth == 0:
                head = b[stmt_start:i]
            depth += 1
        elif c == '}':
            depth -= 1
            if depth == 0:
                j = i + 1
                h = head.strip()
                if h.startswith('typedef'):
                    k = b.find(';', i)
                    i = k if k >= 0 else i
                else:
                    while j < n and b[j].isspace():
                        j += 1
                    if j < n and b[j] == ';':
                        if '=' in h:
                            out.append(re.sub(r'\s+', ' ', h)[:80])
                        elif re.match(r'^(static\s+|const\s+)*(struct|union|enum)\s+\w*\s*$', h) is None and '(' not in h:
                            out.append(re.sub(r'\s+', ' ', h)[:80])
                        i = j
                stmt_start = i + 1
        elif c == ';' and depth == 0:
            st = b[stmt_start:i].strip()
            stmt_start = i + 1
            if st and not st.startswith(('typedef', 'extern', 'EXTERN')) and '(' not in st and not re.match(r'^(struct|union|enum)\s+\w+$', st):
                out.append(re.sub(r'\s+', ' ', st)[:80])
        i += 1
    for m in re.finditer(r'\bstatic\b[^;(){}]*[;=\[]', b):
        d = b.count('{', 0, m.start()) - b.count('}', 0, m.start())
        if d > 0:
            out.append('local: ' + re.sub(r'\s+', ' ', m.group())[:80])
    return out


def run_fact(f, repo):
    res = dict(id=f['id'], text=f['text'], kind=f['kind'], status='pass', found=None, expected=f.get('expected'))
    files = _files(repo, f['files'])
    if not files:
        res['status'] = 'undecided'
        res['reason'] = 'no files matched %s' % f['files']
        return res
    try:
        if f['kind'] in ('sites_equal', 'absent', 'present'):
            sites = set()
            per_file = {}
            for path in files:
                src = open(path, errors='replace').read()
                b = inj.blank_comments_strings(src) if not f.get('keep_pp') else src
                rel = os.path.relpath(path, repo)
                per_file[rel] = 0
                for m in re.finditer(f['pattern'], b):
                    per_file[rel] += 1
                    sites.add('%s:%s' % (rel, enclosing_function(b, m.start())))
            res['found'] = sorted(sites)
            res['files_scanned'] = len(files)
            if f['kind'] == 'sites_equal':
                if set(f['expected']) != sites:
                    res['status'] = 'fail'
            elif f['kind'] == 'absent':
                if sites:
                    res['status'] = 'fail'
            elif f['kind'] == 'present':
                missing = [k for k, v in per_file.items() if v == 0]
                if missing:
                    res['status'] = 'fail'
                    res['found'] = dict(missing=missing)
        elif f['kind'] == 'static_storage':
            found = []
            for path in files:
                for d in static_storage(path):
                    found.append('%s: %s' % (os.path.relpath(path, repo), d))
            res['found'] = sorted(found)
            res['files_scanned'] = len(files)
            if sorted(f['expected']) != sorted(found):
                res['status'] = 'fail'
        elif f['kind'] == 'absent_in_region':
            # inside `function` of files[0], after the first match of `after`, `pattern` must not occur
            src = open(files[0], errors='replace').read()
            bb = inj.blank_comments_strings(src)
            bo, bc = inj.find_function(bb, f['function'])
            text = src if f.get('keep_pp') else bb
            body = text[bo:bc]
            m0 = re.search(f['after'], body)
            if not m0:
                res['status'] = 'fail'
                res['found'] = ['anchor not found: ' + f['after']]
            else:
                region = bb[bo:bc][m0.end():]
                hits = [m.group(0) for m in re.finditer(f['pattern'], region)]
                res['found'] = hits[:10]
                if hits:
                    res['status'] = 'fail'
        elif f['kind'] == 'order':
            src = open(files[0], errors='replace').read()
            b = inj.blank_comments_strings(src) if not f.get('keep_pp') else src
            if f.get('keep_pp'):
                bb = inj.blank_comments_strings(src)
                bo, bc = inj.find_function(bb, f['function'])
            else:
                bo, bc = inj.find_function(b, f['function'])
            body = b[bo:bc]
            pos = 0
            got = []
            for pat in f['sequence']:
                m = re.compile(pat).search(body, pos)
                if not m:
                    res['status'] = 'fail'
                    got.append('MISSING after offset %d: %s' % (pos, pat))
                    break
                got.append('%s @%d' % (pat, m.start()))
                pos = m.end()
            res['found'] = got
        else:
            res['status'] = 'undecided'
            res['reason'] = 'unknown kind'
    except inj.InjectError as e:
        res['status'] = 'undecided'
        res['reason'] = str(e)
    return res
