#!/usr/bin/env python3
"""regenerate /verif/MANIFEST.json from kv/registry.py (PROPS, NOT_APPLICABLE)"""
import json, os, sys
HERE = os.path.dirname(os.path.abspath(__file__))
sys.path.insert(0, HERE)
import registry as reg
VERIF = os.path.dirname(HERE)
ids = [json.loads(l)['id'] for l in open(os.path.join(VERIF, 'properties.jsonl'))]
checks = []
na = []
for i in ids:
    p = reg.PROPS.get(i)
    if not p or p.get('not_applicable'):
        na.append(dict(property_id=i, reason=(p or {}).get('not_applicable', reg.NOT_YET.get(i, 'no contract-based check built yet for this property'))))
        continue
    checks.append(dict(
        property_id=i,
        quick_cmd='./check.sh %s quick' % i,
        thorough_cmd='./check.sh %s thorough' % i,
        evidence_file='/verif/evidence/%s.json' % i,
        replay_cmd_template='python3 kv/kv.py replay {path}',
        engine='kv-cbmc',
        level_claimed=dict(category=p['level'], text=p['level_text'], design_ref=p.get('design_ref', 'DESIGN.md section 5, ' + i)),
        level_note=p['level_note'],
        technique=p['technique']))
m = dict(
    version=1,
    setup_cmd='python3 kv/selftest.py',
    hooks=dict(guard='KALIGN_VERIF', enable='-DKALIGN_VERIF (passed by kv/kv.py to goto-cc and to the native replay build; no hook code is needed in /repo at present)',
               baseline_off_cmd='sh /verif/kv/baseline_off.sh', source_commits=reg.HOOK_COMMITS, add_only=True),
    engines=[dict(name='kv-cbmc', path='/verif/kv/kv.py', serves_properties=[c['property_id'] for c in checks],
                  kind_free_text='contract-based deductive verification of the real C sources with CBMC 6.11 (goto-cc, goto-instrument --dfcc, cbmc); native ASan/UBSan replay of counterexamples')],
    checks=checks,
    notes=reg.NOTES,
    not_applicable=na)
json.dump(m, open(os.path.join(VERIF, 'MANIFEST.json'), 'w'), indent=1)
print('checks:', [c['property_id'] for c in checks], 'not_applicable:', [n['property_id'] for n in na])
