#!/usr/bin/env python3
"""inject.py -- put loop contracts / ghost statements into a scratch COPY of a real source file.

.loops file format (one per source file, /verif/contracts/<file>.loops):

    @file lib/src/bpm.c
    @function bpm loops=2            # number of REAL loops the function must contain (rule R1)
    @loop 1                          # ordinal of the loop inside the function (1-based, source order)
    __CPROVER_assigns(...)
    __CPROVER_loop_invariant(...)
    __CPROVER_decreases(...)
    @ghost loop 1 body-start         # statement(s) inserted right after the '{' of loop 1
    kv_ghost_step(...);
    @ghost loop 1 body-end           # ... right before the closing '}' of loop 1
    @ghost loop 1 before             # ... right before the loop statement
    @ghost entry                     # ... right after the opening '{' of the function
    @ghost at <regex>                # ... right before the unique match of <regex> in the function body (not in a comment)
    @shrink <regex> => <replacement>  # rule R3, must fire exactly `count=` times (default 1)

Everything inserted is wrapped in  /*KV<*/ ... /*>KV*/  on the same physical
line, so that deleting those spans gives back the original file byte for byte
(rule R2, checked here on every run).  A loop is a `for` / `while` / `do`
keyword at statement level; the `while` that closes a `do` is not counted, and
`do { ... } while(0)` bodies come only from macros, which are not expanded here.
Exit status 2 (never a violation) on any rule failure.
"""
import re, sys, hashlib

OPEN, CLOSE = "/*KV<*/", "/*>KV*/"


class InjectError(Exception):
    pass


def blank_comments_strings(src):
    """same length as src, comments/strings/char literals/preprocessor lines replaced by spaces"""
    out = list(src)
    i, n = 0, len(src)
    bol = True
    while i < n:
        c = src[i]
        if bol and c == '#':
            j = i
            while j < n:
                k = src.find('\n', j)
                if k < 0:
                    k = n
                if src[k - 1] == '\\':
                    j = k + 1
                    continue
                break
            for t in range(i, k):
                if out[t] != '\n':
                    out[t] = ' '
            i = k
            continue
        if c == '/' and i + 1 < n and src[i + 1] == '*':
            k = src.find('*/', i + 2)
            k = n if k < 0 else k + 2
            for t in range(i, k):
                if out[t] != '\n':
                    out[t] = ' '
            i = k
            continue
        if c == '/' and i + 1 < n and src[i + 1] == '/':
            k = src.find('\n', i)
            k = n if k < 0 else k
            for t in range(i, k):
                out[t] = ' '
            i = k
            continue
        if c == '"' or c == "'":
            q = c
            j = i + 1
            while j < n and src[j] != q:
                if src[j] == '\\':
                    j += 1
                j += 1
            for t in range(i + 1, min(j, n)):
                if out[t] != '\n':
                    out[t] = ' '
            i = j + 1
            bol = False
            continue
        if c == '\n':
            bol = True
        elif not c.isspace():
            bol = False
        i += 1
    return ''.join(out)


def match(b, i, o, c):
    """b[i] == o ; return index of matching c"""
    d = 0
    n = len(b)
    while i < n:
        if b[i] == o:
            d += 1
        elif b[i] == c:
            d -= 1
            if d == 0:
                return i
        i += 1
    raise InjectError("unbalanced %s%s" % (o, c))


def find_function(b, name):
    """return (body_open_idx, body_close_idx) of the DEFINITION of name"""
    for m in re.finditer(r'\b' + re.escape(name) + r'\s*\(', b):
        # must be at brace depth 0
        if b.count('{', 0, m.start()) != b.count('}', 0, m.start()):
            continue
        p = b.index('(', m.start())
        q = match(b, p, '(', ')')
        j = q + 1
        while j < len(b) and b[j].isspace():
            j += 1
        if j < len(b) and b[j] == '{':
            return j, match(b, j, '{', '}')
    raise InjectError("R1: function %s not found" % name)


def find_loops(b, lo, hi):
    """loops inside b[lo:hi] in source order.
    each: dict(kind, kw, hdr_end (index after header ')' or after 'do'), body_open, body_close, stmt_start)"""
    loops = []
    do_stack = []
    pending_do_while = set()
    for m in re.finditer(r'\b(for|while|do)\b', b[lo:hi]):
        kw = m.group(1)
        s = lo + m.start()
        e = lo + m.end()
        if kw == 'do':
            j = e
            while b[j].isspace():
                j += 1
            if b[j] != '{':
                raise InjectError("do without block at %d" % s)
            bc = match(b, j, '{', '}')
            # closing while
            k = bc + 1
            while b[k].isspace():
                k += 1
            if not b.startswith('while', k):
                raise InjectError("do without while")
            pending_do_while.add(k)
            loops.append(dict(kind='do', start=s, hdr_end=e, body_open=j, body_close=bc))
            continue
        if kw == 'while' and s in pending_do_while:
            continue
        j = e
        while b[j].isspace():
            j += 1
        if b[j] != '(':
            raise InjectError("%s without ( at %d" % (kw, s))
        q = match(b, j, '(', ')')
        k = q + 1
        while b[k].isspace():
            k += 1
        if b[k] == '{':
            bo, bc = k, match(b, k, '{', '}')
        else:
            bo, bc = None, None
        loops.append(dict(kind=kw, start=s, hdr_end=q + 1, body_open=bo, body_close=bc))
    return loops


def parse_loops_file(path):
    spec = dict(file=None, functions=[], shrinks=[])
    cur_fn = None
    cur = None
    for raw in open(path):
        line = raw.rstrip('\n')
        st = line.strip()
        if st.startswith('#') or not st:
            continue
        if st.startswith('@file'):
            spec['file'] = st.split()[1]
        elif st.startswith('@function'):
            parts = st.split()
            nl = None
            for p in parts[2:]:
                if p.startswith('loops='):
                    nl = int(p[6:])
            cur_fn = dict(name=parts[1], nloops=nl, items=[])
            spec['functions'].append(cur_fn)
            cur = None
        elif st.startswith('@loop'):
            cur = dict(kind='loop', ordinal=int(st.split()[1]), text=[])
            cur_fn['items'].append(cur)
        elif st.startswith('@ghost'):
            parts = st.split()
            if parts[1] == 'entry':
                cur = dict(kind='ghost', where='entry', ordinal=None, text=[])
            elif parts[1] == 'at':
                # @ghost at <regex>  : insert right before the (unique) match of regex inside the function body
                cur = dict(kind='ghost', where='at', ordinal=None, regex=st.split(None, 2)[2], text=[])
            else:
                cur = dict(kind='ghost', where=parts[3], ordinal=int(parts[2]), text=[])
            cur_fn['items'].append(cur)
        elif st.startswith('@shrink'):
            body = st[len('@shrink'):].strip()
            cnt = 1
            mm = re.match(r'count=(\d+)\s+(.*)', body)
            if mm:
                cnt = int(mm.group(1))
                body = mm.group(2)
            pat, rep = body.split(' => ')
            spec['shrinks'].append((pat.strip(), rep.strip(), cnt))
            cur = None
        else:
            if cur is None:
                raise InjectError("stray line in %s: %s" % (path, line))
            cur['text'].append(st)
    return spec


def inject(src, spec, with_shrink=True):
    """returns (new_src, report)"""
    b = blank_comments_strings(src)
    inserts = []  # (pos, text)
    report = dict(functions={}, shrinks=[])
    for fn in spec['functions']:
        bo, bc = find_function(b, fn['name'])
        loops = find_loops(b, bo, bc)
        uses_ordinals = any(it.get('ordinal') is not None for it in fn['items'])
        if fn['nloops'] is not None and len(loops) != fn['nloops'] and uses_ordinals:
            # loop contracts / ghost statements are keyed by loop ordinal: a different loop count means they would land on the wrong loop
            raise InjectError("R1: function %s has %d loops, contract file expects %d" % (fn['name'], len(loops), fn['nloops']))
        report['functions'][fn['name']] = dict(loops=len(loops), annotated=[])
        if fn['nloops'] is not None and len(loops) != fn['nloops']:
            # only entry / regex-anchored items (each anchor must still match exactly once): the loop count is informational
            report['functions'][fn['name']]['note'] = 'loop count %d differs from the recorded %d (no ordinal-keyed item in this function)' % (len(loops), fn['nloops'])
        for it in fn['items']:
            text = ' '.join(it['text'])
            if it['kind'] == 'ghost' and it['where'] == 'entry':
                inserts.append((bo + 1, text))
                continue
            if it['kind'] == 'ghost' and it['where'] == 'at':
                ms = list(re.finditer(it['regex'], src[bo:bc]))
                ms = [m for m in ms if b[bo + m.start()] != ' ' or src[bo + m.start()] == ' ']
                if len(ms) != 1:
                    raise InjectError("R1: anchor %r matches %d times in %s" % (it['regex'], len(ms), fn['name']))
                inserts.append((bo + ms[0].start(), text + ' '))
                continue
            o = it['ordinal']
            if o < 1 or o > len(loops):
                raise InjectError("R1: function %s has no loop %d" % (fn['name'], o))
            lp = loops[o - 1]
            if it['kind'] == 'loop':
                if lp['kind'] == 'do':
                    raise InjectError("loop contracts on do-while are not supported")
                inserts.append((lp['hdr_end'], ' ' + text + ' '))
                report['functions'][fn['name']]['annotated'].append(o)
            else:
                w = it['where']
                if w == 'before':
                    inserts.append((lp['start'], text + ' '))
                elif w == 'body-start':
                    if lp['body_open'] is None:
                        raise InjectError("loop %d of %s has no block body" % (o, fn['name']))
                    inserts.append((lp['body_open'] + 1, ' ' + text + ' '))
                elif w == 'body-end':
                    if lp['body_close'] is None:
                        raise InjectError("loop %d of %s has no block body" % (o, fn['name']))
                    inserts.append((lp['body_close'], ' ' + text + ' '))
                else:
                    raise InjectError("unknown ghost position " + w)
    out = src
    for pos, text in sorted(inserts, key=lambda x: -x[0]):
        if OPEN in text or CLOSE in text or '\n' in text:
            raise InjectError("bad insert text")
        out = out[:pos] + OPEN + text + CLOSE + out[pos:]
    # R2 round trip
    back = re.sub(re.escape(OPEN) + r'.*?' + re.escape(CLOSE), '', out)
    if back != src:
        raise InjectError("R2: round trip failed")
    report['sha256_repo'] = hashlib.sha256(src.encode()).hexdigest()
    report['sha256_stripped'] = hashlib.sha256(back.encode()).hexdigest()
    # R3 capacity shrink (the only change to executable text; recorded)
    if with_shrink:
        for pat, rep, cnt in spec['shrinks']:
            out, n = re.subn(pat, rep, out)
            if n != cnt:
                raise InjectError("R3: shrink pattern %r fired %d times, expected %d" % (pat, n, cnt))
            report['shrinks'].append(dict(pattern=pat, replacement=rep, count=n))
    return out, report


if __name__ == '__main__':
    spec = parse_loops_file(sys.argv[1])
    src = open(sys.argv[2]).read()
    try:
        out, rep = inject(src, spec)
    except InjectError as e:
        print("INJECT-ERROR", e)
        sys.exit(2)
    sys.stdout.write(out)
