#!/usr/bin/env python3
"""kv.py -- driver: contract checks of the real kalign sources with CBMC.

  python3 kv/kv.py check C09 [--tier quick|thorough] [--jobs N] [--only <query-substring>]
  python3 kv/kv.py replay <replay-file>
  python3 kv/kv.py list

Exit status of `check`: 0 property held on everything decided; 1 VIOLATION line(s) printed;
2 undecided (timeout, out of memory, extraction rule R1/R2/R3 failed, vacuous harness, ...).
"""
import sys, os, json, re, time, shutil, subprocess, tempfile, hashlib, argparse, glob
from concurrent.futures import ThreadPoolExecutor

HERE = os.path.dirname(os.path.abspath(__file__))
VERIF = os.path.dirname(HERE)
REPO = os.environ.get('KV_REPO', '/repo')
sys.path.insert(0, HERE)
import inject as inj
import registry as reg
import static_facts as sf

# --conversion-check is NOT used: it reports well-defined modular conversions such as m->L = ALPHA_UNDEFINED (-1 -> uint8_t)
# as 'overflow'; those are not undefined behaviour (false alarm FA-2 in DESIGN.md)
CBMC_CHECKS = ['--bounds-check', '--pointer-check', '--pointer-overflow-check', '--signed-overflow-check',
               '--div-by-zero-check', '--undefined-shift-check']
VERSION_DEFS = ['-DKALIGN_PACKAGE_VERSION="3.4.1"', '-DKALIGN_PACKAGE_NAME="kalign"']


def sh(cmd, timeout=None, mem_gb=None, env=None, cwd=None, stdout_path=None):
    """run; returns (rc, stdout, stderr, seconds). rc -9: timeout"""
    t0 = time.time()
    pre = None
    if mem_gb:
        import resource

        def pre():
            resource.setrlimit(resource.RLIMIT_AS, (int(mem_gb * 2 ** 30), int(mem_gb * 2 ** 30)))
    try:
        if stdout_path:
            with open(stdout_path, 'wb') as fo:
                p = subprocess.run(cmd, stdout=fo, stderr=subprocess.PIPE, timeout=timeout, preexec_fn=pre, env=env, cwd=cwd)
            out = ''
        else:
            p = subprocess.run(cmd, stdout=subprocess.PIPE, stderr=subprocess.PIPE, timeout=timeout, preexec_fn=pre, env=env, cwd=cwd)
            out = p.stdout.decode(errors='replace')
        return p.returncode, out, p.stderr.decode(errors='replace'), time.time() - t0
    except subprocess.TimeoutExpired:
        return -9, '', 'TIMEOUT', time.time() - t0


# --------------------------------------------------------------------------- scratch tree

def make_scratch_tree(scratch):
    """copy of the parts of /repo's WORKING TREE that are compiled (rebuilt on every run)"""
    dst = os.path.join(scratch, 'tree')
    os.makedirs(dst)
    for sub in ('lib/src', 'lib/include', 'src', 'tests'):
        s = os.path.join(REPO, sub)
        if os.path.isdir(s):
            shutil.copytree(s, os.path.join(dst, sub), ignore=shutil.ignore_patterns('data', '*.o'))
    return dst


def apply_injections(tree, loops_files, shrink):
    """returns report list; raises inj.InjectError"""
    reports = []
    done = set()
    for lf in loops_files:
        spec = inj.parse_loops_file(os.path.join(VERIF, 'contracts', lf))
        path = os.path.join(tree, spec['file'])
        # several .loops files may address one source file: they are applied one after the other on the scratch copy
        src = open(path if spec['file'] in done else os.path.join(REPO, spec['file'])).read()
        done.add(spec['file'])
        out, rep = inj.inject(src, spec, with_shrink=shrink)
        rep['file'] = spec['file']
        rep['loops_file'] = lf
        open(path, 'w').write(out)
        reports.append(rep)
    return reports


# --------------------------------------------------------------------------- one query

class QResult:
    def __init__(self, q, shape):
        self.q = q
        self.shape = shape
        self.qid = q['id'] + (('[' + shape['name'] + ']') if shape else '')
        self.status = 'undecided'     # pass | fail | undecided
        self.reason = ''
        self.obligations = []         # (name, description, status)
        self.failed = []              # obligations failed (excluding KV_REACH / unwind)
        self.solver_s = 0.0
        self.wall_s = 0.0
        self.cmds = []
        self.inject_reports = []
        self.reach_ok = False
        self.trace_inputs = {}        # obligation name -> list of ints
        self.raw_tail = ''
        self.nvars = None


def include_flags(tree):
    return ['-I' + os.path.join(VERIF, 'contracts'), '-I' + os.path.join(VERIF, 'harness'),
            '-I' + os.path.join(tree, 'lib/src'), '-I' + os.path.join(tree, 'lib/include'),
            '-I' + os.path.join(tree, 'src'), '-I' + os.path.join(tree, 'tests')]


def shape_defs(shape):
    if not shape:
        return []
    return ['-D%s=%s' % (k, v) for k, v in shape['defs'].items()]


def parse_cbmc_json(path):
    """returns (results list, status string, messages tail)"""
    try:
        data = json.load(open(path))
    except Exception as e:
        txt = open(path, errors='replace').read()
        return None, 'unparsable', txt[-2000:], None, 0.0
    results = None
    status = None
    msgs = []
    nvars = None
    solver = 0.0
    for e in data:
        if 'result' in e:
            results = e['result']
        if 'cProverStatus' in e:
            status = e['cProverStatus']
        if 'messageText' in e:
            msgs.append(e['messageText'])
            m = re.search(r'(\d+) variables, (\d+) clauses', e['messageText'])
            if m:
                nvars = int(m.group(1))
            m = re.search(r'Runtime Solver: ([0-9.e+-]+)s', e['messageText'])
            if m:
                solver += float(m.group(1))
    return results, status, '\n'.join(msgs[-15:]), nvars, solver


def trace_inputs(trace):
    vals = []
    for s in trace:
        if s.get('stepType') != 'assignment':
            continue
        lhs = s.get('lhs', '')
        if not lhs.startswith('goto_symex$$return_value$$kv_in_'):
            continue
        v = s.get('value', {})
        b = v.get('binary')
        if b is None:
            continue
        kind = lhs[len('goto_symex$$return_value$$kv_in_'):]
        u = int(b, 2)
        w = len(b)
        if kind in ('int', 'll', 'char') and u >= 1 << (w - 1):
            u -= 1 << w
        vals.append(u)
    return vals


_CONST_LOOP = re.compile(r'for\s*\([^;]*;\s*\w+\s*(<|<=)\s*(\d+)\s*;')
_CONST_LOOP_DOWN = re.compile(r'for\s*\(\s*(?:int\s+)?\w+\s*=\s*(\d+)\s*;\s*\w+\s*--\s*;')


def auto_unwindset(gb, maxn):
    """loops whose source line has a literal constant bound (`for(...; i < 128; ...)`, `for(i = 23; i--;)`) are bounded
    by the code itself: give each its own complete unwinding bound, so that --unwind only governs data-dependent loops"""
    rc, out, err, _ = sh(['cbmc', gb, '--show-loops', '--json-ui'], timeout=120)
    res = {}
    try:
        data = json.loads(out)
    except Exception:
        return res
    cache = {}
    for e in data:
        for l in e.get('loops', []):
            loc = l.get('sourceLocation', {})
            f, ln = loc.get('file'), loc.get('line')
            if not f or not ln:
                continue
            if f not in cache:
                try:
                    cache[f] = open(f, errors='replace').read().split('\n')
                except Exception:
                    cache[f] = []
            lines = cache[f]
            k = int(ln) - 1
            if k < 0 or k >= len(lines):
                continue
            text = lines[k]
            m = _CONST_LOOP.search(text)
            n = None
            if m:
                n = int(m.group(2)) + (1 if m.group(1) == '<=' else 0)
            else:
                m = _CONST_LOOP_DOWN.search(text)
                if m:
                    n = int(m.group(1))
            if n is not None and 0 < n <= maxn:
                res[l['name']] = n + 2
    return res


def run_query(q, shape, scratch_root, tier):
    r = QResult(q, shape)
    t0 = time.time()
    sdir = tempfile.mkdtemp(prefix='q_', dir=scratch_root)
    try:
        tree = make_scratch_tree(sdir)
        try:
            r.inject_reports = apply_injections(tree, q.get('loops_files', []), q.get('shrink', False))
        except inj.InjectError as e:
            r.reason = 'extraction rule failed: %s' % e
            return r
        harness = os.path.join(VERIF, 'harness', q['harness'])
        entry = q['entry']
        a_gb = os.path.join(sdir, 'a.gb')
        b_gb = os.path.join(sdir, 'b.gb')
        cc = ['goto-cc', '-DKV_CBMC', '-DKALIGN_VERIF', '-D__NO_CTYPE'] + VERSION_DEFS + q.get('defs', []) + shape_defs(shape) + include_flags(tree) + \
             ['--function', entry, harness] + [os.path.join(tree, x) for x in q.get('srcs', [])] + ['-o', a_gb]
        r.cmds.append(' '.join(cc))
        rc, out, err, _ = sh(cc, timeout=300)
        if rc != 0:
            r.reason = 'goto-cc failed: ' + (err + out)[-1500:]
            return r
        gb = a_gb
        if q.get('pre_unwind'):
            # loops without a contract that are nested inside a loop with a contract must be unwound BEFORE the loop contracts are applied
            a1_gb = os.path.join(sdir, 'a1.gb')
            pu = ['goto-instrument']
            for k, v in q['pre_unwind'].items():
                pu += ['--unwindset', '%s:%d' % (k, v)]
            pu += ['--unwinding-assertions', a_gb, a1_gb]
            r.cmds.append(' '.join(pu))
            rc, out, err, _ = sh(pu, timeout=300)
            if rc != 0:
                r.reason = 'goto-instrument (pre-unwind) failed: ' + (err + out)[-1000:]
                return r
            a_gb = a1_gb
            gb = a_gb
        if q.get('mode', 'wrap') == 'dfcc':
            gi = ['goto-instrument', '--dfcc', entry]
            for f in q.get('enforce', []):
                gi += ['--enforce-contract', f]
            for f in q.get('enforce_rec', []):
                gi += ['--enforce-contract-rec', f]
            for f in q.get('replace', []):
                gi += ['--replace-call-with-contract', f]
            if q.get('loop_contracts', False):
                gi += ['--apply-loop-contracts']
            gi += q.get('gi_flags', [])
            if not q.get('malloc_may_fail', False):
                gi += ['--no-malloc-may-fail']
            gi += [a_gb, b_gb]
            r.cmds.append(' '.join(gi))
            rc, out, err, _ = sh(gi, timeout=600)
            if rc != 0:
                r.reason = 'goto-instrument failed: ' + (err + out)[-1500:]
                return r
            gb = b_gb
        flags = list(q.get('cbmc_flags', []))
        auto_uw = auto_unwindset(gb, q.get('auto_unwind_max', 300)) if q.get('auto_unwind', True) else {}
        if shape and 'unwind' in shape:
            flags += ['--unwind', str(shape['unwind'])]
        elif 'unwind' in q:
            flags += ['--unwind', str(q['unwind'])]
        uws = dict(auto_uw)
        uws.update(q.get('unwindset', {}))
        uws.setdefault('kv_mk_msa_raw.0', 130)   # harness helper: zeroing the 128-entry histogram
        for k, v in uws.items():
            flags += ['--unwindset', '%s:%d' % (k, v)]
        if not q.get('malloc_may_fail', False):
            flags += ['--no-malloc-may-fail']
        if q.get('leak_check', False):
            flags += ['--memory-leak-check']
        if q.get('object_bits'):
            flags += ['--object-bits', str(q['object_bits'])]
        checks = CBMC_CHECKS if q.get('checks', True) else []
        solver = q.get('solver', [])
        cb = ['cbmc', gb] + checks + flags + solver + ['--slice-formula', '--trace', '--json-ui']
        if q.get('no_slice'):
            cb.remove('--slice-formula')
        r.cmds.append(' '.join(cb))
        if os.environ.get('KV_KEEP'):
            open(os.path.join(sdir, 'cmds.txt'), 'w').write('\n'.join(r.cmds) + '\n')
        outp = os.path.join(sdir, 'out.json')
        tmo = q.get('timeout', {}).get(tier, 600) if isinstance(q.get('timeout'), dict) else q.get('timeout', 600)
        rc, _, err, secs = sh(cb, timeout=tmo, mem_gb=int(os.environ.get('KV_MEM_GB', q.get('mem_gb', 12))), stdout_path=outp)
        r.solver_s = secs
        if rc == -9:
            r.reason = 'cbmc timeout after %ds' % tmo
            return r
        parsed = parse_cbmc_json(outp)
        if parsed[0] is None:
            r.reason = 'cbmc gave no result (rc=%d, out of memory or error): %s' % (rc, (parsed[2] or '')[-800:] + err[-400:])
            return r
        results, status, tail, nvars, solver_s = parsed
        r.nvars = nvars
        r.raw_tail = tail
        if 'ignoring' in tail and 'forall' in tail:
            r.reason = 'quantifier ignored by back end'
            return r
        undec = []
        for o in results:
            name, desc, st = o.get('property', ''), o.get('description', ''), o.get('status', '')
            r.obligations.append((name, desc, st))
            if 'KV_REACH' in desc:
                if st == 'FAILURE':
                    r.reach_ok = True
                continue
            if '.unwind.' in name or 'unwinding assertion' in desc:
                if st != 'SUCCESS':
                    undec.append(name)
                continue
            if st == 'FAILURE':
                r.failed.append((name, desc, o.get('sourceLocation', {})))
                if 'trace' in o:
                    r.trace_inputs[name] = trace_inputs(o['trace'])
            elif st != 'SUCCESS':
                undec.append(name + ':' + st)
        nob = len([o for o in r.obligations if 'KV_REACH' not in o[1]])
        if nob == 0:
            r.reason = 'zero obligations generated'
            return r
        if q.get('loop_contracts') and not any('loop_invariant_step' in o[0] or 'invariant' in o[1].lower() for o in r.obligations):
            r.reason = 'loop contract silently dropped (no loop_invariant_step obligation)'
            return r
        if not r.reach_ok:
            r.reason = 'vacuous: reachability obligation KV_REACH did not fail' + ((' (unwinding bound too small: %s)' % ', '.join(undec[:4])) if undec else '')
            return r
        if r.failed:
            r.status = 'fail'
            # --slice-formula drops the inputs that do not matter to the failed obligation from the trace; for a
            # replayable query re-run the failed obligations unsliced to get every kv_in_*() value in call order
            replayable = q.get('replayable', q['cls'] == 'B' or not q.get('loop_contracts'))
            if replayable and '--slice-formula' in cb:
                cb2 = [x for x in cb if x != '--slice-formula']
                for (name, _d, _l) in r.failed[:8]:
                    cb2 += ['--property', name]
                outp2 = os.path.join(sdir, 'out2.json')
                rc2, _, _, _ = sh(cb2, timeout=tmo, mem_gb=int(os.environ.get('KV_MEM_GB', q.get('mem_gb', 12))), stdout_path=outp2)
                p2 = parse_cbmc_json(outp2)
                r.trace_inputs = {}      # sliced traces are not replayable
                if p2[0] is not None:
                    for o in p2[0]:
                        if o.get('status') == 'FAILURE' and 'trace' in o:
                            r.trace_inputs[o.get('property', '')] = trace_inputs(o['trace'])
            return r
        if undec:
            r.reason = 'undecided obligations (bound too small / unknown): ' + ', '.join(undec[:6])
            return r
        r.status = 'pass'
        return r
    finally:
        r.wall_s = time.time() - t0
        if not os.environ.get("KV_KEEP"):
            shutil.rmtree(sdir, ignore_errors=True)


# --------------------------------------------------------------------------- replay

def native_build(q, shape, tree, outdir):
    exe = os.path.join(outdir, 'replay_bin')
    harness = os.path.join(VERIF, 'harness', q['harness'])
    srcs = [os.path.join(tree, s) for s in q.get('native_srcs', ['lib/src/tldevel.c'])]
    cmd = ['gcc', '-DKV_NATIVE', '-DKALIGN_VERIF', '-include', os.path.join(VERIF, 'contracts', 'kv.h'), '-g', '-O0', '-w', '-fsanitize=address,undefined', '-fno-sanitize-recover=undefined'] + VERSION_DEFS + \
          q.get('defs', []) + shape_defs(shape) + include_flags(tree) + [harness] + srcs + ['-lm', '-o', exe]
    rc, out, err, _ = sh(cmd, timeout=300)
    if rc != 0:
        return None, ' '.join(cmd) + '\n' + err[-1500:]
    return exe, ' '.join(cmd)


def write_replay(prop, r, name, desc, loc, inputs, extra=''):
    d = os.path.join(VERIF, 'replay', prop)
    os.makedirs(d, exist_ok=True)
    fn = re.sub(r'[^A-Za-z0-9_.-]', '_', r.qid + '.' + name) + '.replay'
    path = os.path.join(d, fn)
    with open(path, 'w') as f:
        f.write('# kv replay file\n')
        f.write('property: %s\nquery: %s\nclass: %s\nshape: %s\n' % (prop, r.q['id'], r.q['cls'], json.dumps(r.shape) if r.shape else '-'))
        f.write('obligation: %s\ndescription: %s\nlocation: %s:%s (%s)\n' % (name, desc, loc.get('file', '?'), loc.get('line', '?'), loc.get('function', '?')))
        f.write('functions_under_contract: %s\n' % ','.join(r.q.get('funcs', [])))
        for c in r.cmds:
            f.write('cmd: %s\n' % c)
        f.write('solver_output_tail: |\n')
        for l in r.raw_tail.splitlines():
            f.write('  ' + l + '\n')
        if inputs is not None:
            f.write('# inputs = return values of the kv_in_*() calls of the harness, in call order\n')
            for v in inputs:
                f.write('in %d\n' % v)
        if extra:
            f.write(extra)
    return path


def do_replay(path, scratch_root=None):
    """re-run a replay file natively against the CURRENT /repo working tree. returns (reproduced, text)"""
    meta = {}
    for l in open(path):
        m = re.match(r'(\w+): (.*)', l)
        if m and m.group(1) not in meta:
            meta[m.group(1)] = m.group(2).strip()
    q = reg.by_id().get(meta.get('query'))
    if not q:
        return None, 'unknown query in replay file'
    shape = json.loads(meta['shape']) if meta.get('shape', '-') != '-' else None
    own = scratch_root is None
    if own:
        scratch_root = tempfile.mkdtemp(prefix='kvreplay_')
    try:
        sdir = tempfile.mkdtemp(prefix='r_', dir=scratch_root)
        tree = make_scratch_tree(sdir)
        try:
            # ghost statements are needed by some harnesses; loop contract clauses are dropped natively by -DKV_NATIVE macros
            apply_injections(tree, q.get('loops_files', []), q.get('shrink', False))
        except inj.InjectError as e:
            return None, 'extraction failed: %s' % e
        exe, log = native_build(q, shape, tree, sdir)
        if not exe:
            return None, 'native build failed: ' + log
        env = dict(os.environ)
        env['KV_REPLAY'] = path
        env['ASAN_OPTIONS'] = 'detect_leaks=%d' % (1 if q.get('leak_check') else 0)
        rc, out, err, _ = sh([exe], timeout=120, env=env)
        txt = 'native_cmd: %s\nnative_rc: %d\n%s' % (log, rc, (out + err)[-3000:])
        if rc in (3, 4):
            return None, txt
        return rc != 0, txt
    finally:
        if own:
            shutil.rmtree(scratch_root, ignore_errors=True)


# --------------------------------------------------------------------------- known findings

def load_known():
    known, fixed = [], []
    p = os.path.join(VERIF, 'KNOWN_FINDINGS.txt')
    if os.path.exists(p):
        for l in open(p):
            l = l.strip()
            if l.startswith('known:'):
                d = dict(re.findall(r'(\w+)=(\S+)', l.split('::')[0]))
                d['text'] = l.split('::', 1)[1].strip() if '::' in l else ''
                known.append(d)
            elif l.startswith('fixed:'):
                fixed.append(l)
    return known, fixed


# --------------------------------------------------------------------------- check a property

def check_property(prop, tier, jobs, only=None, shape_filter=None):
    t0 = time.time()
    seed = int(os.environ.get('VERIF_SEED', '0') or 0)
    pinfo = reg.PROPS[prop]
    known, fixed = load_known()
    known_p = [k for k in known if k.get('property') == prop]
    work = []
    for q in reg.QUERIES:
        if prop not in q['props']:
            continue
        if tier == 'quick' and q.get('tier', 'quick') != 'quick':
            continue
        if only and only not in q['id']:
            continue
        shapes = q.get('shapes')
        if callable(shapes):
            shapes = shapes(tier)
        if shapes:
            for s in shapes:
                if shape_filter and shape_filter not in s['name']:
                    continue
                work.append((q, s))
        else:
            work.append((q, None))
    # known findings are compiled OUT of the input domain by a define named in the finding (input class predicate in the harness)
    kf_defs = {}
    for k in known_p:
        if 'define' in k and 'query' in k:
            kf_defs.setdefault(k['query'], []).append('-D' + k['define'])
    if not only and not shape_filter:
        shutil.rmtree(os.path.join(VERIF, 'replay', prop), ignore_errors=True)
    scratch_root = tempfile.mkdtemp(prefix='kv_%s_' % prop)
    results = []
    try:
        def job(qs):
            q, s = qs
            if q['id'] in kf_defs:
                q = dict(q)
                q['defs'] = q.get('defs', []) + kf_defs[q['id']]
            return run_query(q, s, scratch_root, tier)
        with ThreadPoolExecutor(max_workers=jobs) as ex:
            results = list(ex.map(job, work))
        # static facts
        facts = []
        for f in reg.STATIC_FACTS:
            if prop in f['props']:
                facts.append(sf.run_fact(f, REPO))
        violations = []
        undecided = []
        for r in results:
            if r.status == 'undecided':
                undecided.append('%s: %s' % (r.qid, r.reason))
            elif r.status == 'fail':
                for (name, desc, loc) in r.failed:
                    inputs = r.trace_inputs.get(name)
                    replayable = r.q.get('replayable', r.q['cls'] == 'B' or not r.q.get('loop_contracts'))
                    tag = ''
                    extra = ''
                    if inputs is not None and replayable and r.q.get('mode', 'wrap') != 'dfcc_fresh':
                        path = write_replay(prop, r, name, desc, loc, inputs)
                        rep, txt = do_replay(path, scratch_root)
                        with open(path, 'a') as f:
                            f.write('# native replay against /repo working tree\n')
                            for l in txt.splitlines():
                                f.write('# ' + l + '\n')
                            f.write('native_reproduced: %s\n' % rep)
                        if rep is None:
                            tag = ' replay-could-not-run no-failing-input-found'
                        elif rep is False:
                            # model checker and real execution disagree: tool problem, not a violation
                            undecided.append('%s: %s failed in CBMC but native replay passed (%s)' % (r.qid, name, path))
                            continue
                    else:
                        path = write_replay(prop, r, name, desc, loc, None,
                                            extra='note: obligation failed on a havocked (inductive-step / contract-abstracted) state; no concrete failing input\n')
                        tag = ' no-failing-input-found'
                    violations.append((path, name, desc, r.qid, tag))
        for f in facts:
            if f['status'] == 'fail':
                d = os.path.join(VERIF, 'replay', prop)
                os.makedirs(d, exist_ok=True)
                path = os.path.join(d, 'static_%s.replay' % f['id'])
                with open(path, 'w') as fo:
                    fo.write('# static fact failed\nproperty: %s\nfact: %s\nobligation: %s\nfound: %s\nexpected: %s\n' % (prop, f['id'], f['text'], json.dumps(f['found']), json.dumps(f.get('expected'))))
                violations.append((path, 'static:' + f['id'], f['text'], 'static', ' no-failing-input-found'))
            elif f['status'] == 'undecided':
                undecided.append('static %s: %s' % (f['id'], f.get('reason', '')))
        wall = time.time() - t0
        write_evidence(prop, tier, seed, pinfo, results, facts, violations, undecided, known_p, wall)
        for k in known_p:
            print('KNOWN-FINDING: property=%s %s' % (prop, k.get('text', '')))
        for (path, name, desc, qid, tag) in violations:
            print('VIOLATION property=%s replay=%s obligation=%s query=%s%s' % (prop, path, name, qid, tag))
        for u in undecided:
            print('UNDECIDED %s' % u)
        np_ = sum(1 for r in results if r.status == 'pass')
        print('%s tier=%s queries=%d pass=%d fail=%d undecided=%d static_facts=%d wall=%.0fs' % (
            prop, tier, len(results), np_, sum(1 for r in results if r.status == 'fail'),
            sum(1 for r in results if r.status == 'undecided'), len(facts), wall))
        if violations:
            return 1
        if undecided:
            return 2
        return 0
    finally:
        if not os.environ.get("KV_KEEP"):
            shutil.rmtree(scratch_root, ignore_errors=True)


def write_evidence(prop, tier, seed, pinfo, results, facts, violations, undecided, known_p, wall):
    P = [r for r in results if r.q['cls'] == 'P']
    B = [r for r in results if r.q['cls'] == 'B']

    def count(rs):
        n = d = 0
        for r in rs:
            for (name, desc, st) in r.obligations:
                if 'KV_REACH' in desc:
                    continue
                n += 1
                if st == 'SUCCESS':
                    d += 1
        return n, d
    pn, pd = count(P)
    bn, bd = count(B)
    funcs = sorted(set(f for r in results for f in r.q.get('funcs', [])))
    trusted = sorted(set(t for r in results for t in r.q.get('trusted', [])))
    assumptions = list(pinfo.get('assumptions', []))
    assumptions += sorted(set(a for r in results for a in r.q.get('assumptions', [])))
    samples = []
    for r in results[:40]:
        obs = [o for o in r.obligations if o[0].startswith('h_') or 'postcondition' in o[0] or 'loop_invariant' in o[0] or 'KV_CHECK' in o[1]]
        samples.append(dict(query=r.qid, cls=r.q['cls'], status=r.status, reason=r.reason, wall_s=round(r.wall_s, 1),
                            solver_and_symex_s=round(r.solver_s, 1), variables=r.nvars,
                            obligations=len(r.obligations), sample_obligations=[dict(id=o[0], text=o[1], status=o[2]) for o in obs[:6]]))
    level = pinfo['level']
    cov = dict(
        obligations=pn, discharged=pd,
        checker_cmd=' ; '.join(results[0].cmds) if results else 'static facts only',
        trusted_base=trusted,
        functions_under_contract=funcs,
        back_end='cbmc 6.11.0, SAT (cadical) unless a query says otherwise',
        proved_queries=dict(queries=len(P), passed=sum(1 for r in P if r.status == 'pass'), obligations=pn, discharged=pd),
        bounded=dict(queries=len(B), passed=sum(1 for r in B if r.status == 'pass'), obligations=bn, discharged=bd,
                     note='bounded stand-ins: same contract on the same real function, loops unwound over enumerated concrete shapes; never counted in obligations/discharged above',
                     shapes=[r.shape['name'] for r in B if r.shape][:60]),
        static_facts=facts,
        evaluations=len(results) + len(facts),
        distinct_nontrivial=len(set(r.qid for r in results if r.reach_ok)) + sum(1 for f in facts if f['status'] == 'pass'),
        rule='one evaluation = one CBMC query (contract x shape) or one static fact; non-trivial = its must-fail reachability obligation KV_REACH fired (harness not vacuous) / the fact scanned >0 sites',
        samples=samples,
        explanation=pinfo.get('explanation') or pinfo.get('level_text', 'see MANIFEST level_text'),
        extraction=[rep for r in results[:200] for rep in r.inject_reports][:20],
        solver_seconds_total=round(sum(r.solver_s for r in results), 1),
        undecided=undecided,
        known_findings_matched=[k.get('text', '') for k in known_p],
        violations=[dict(replay=v[0], obligation=v[1], text=v[2], query=v[3], tag=v[4].strip()) for v in violations],
        exhaustive=False,
    )
    ev = dict(property_id=prop, tier=tier, seed=seed, level=level, coverage=cov, assumptions=assumptions,
              wall_s=round(wall, 2), violations=len(violations))
    # evidence describes /repo; a run against another tree (KV_REPO: seeded-change tests) writes elsewhere
    # ... and so does a partial run (--only / --shape): the evidence file of a property always describes a complete run of its check
    evdir = os.path.join(VERIF, 'evidence') if not (os.environ.get('KV_REPO') or os.environ.get('KV_PARTIAL')) else os.path.join(tempfile.gettempdir(), 'kv_seed_evidence')
    os.makedirs(evdir, exist_ok=True)
    with open(os.path.join(evdir, prop + '.json'), 'w') as f:
        json.dump(ev, f, indent=1)


def main():
    ap = argparse.ArgumentParser()
    sub = ap.add_subparsers(dest='cmd')
    c = sub.add_parser('check')
    c.add_argument('prop')
    c.add_argument('--tier', default=os.environ.get('VERIF_TIER', 'quick'))
    c.add_argument('--jobs', type=int, default=int(os.environ.get('KV_JOBS', '14')))
    c.add_argument('--only', default=None)
    c.add_argument('--shape', default=None)
    rp = sub.add_parser('replay')
    rp.add_argument('file')
    sub.add_parser('list')
    a = ap.parse_args()
    if a.cmd == 'check':
        tier = a.tier if a.tier in ('quick', 'thorough') else 'quick'
        if a.only or a.shape:
            os.environ['KV_PARTIAL'] = '1'
        sys.exit(check_property(a.prop, tier, a.jobs, a.only, a.shape))
    elif a.cmd == 'replay':
        rep, txt = do_replay(a.file)
        print(txt)
        print('reproduced:', rep)
        sys.exit(1 if rep else 0)
    elif a.cmd == 'list':
        for q in reg.QUERIES:
            print(q['id'], q['props'], q['cls'], q.get('tier', 'quick'))
    else:
        ap.print_help()


if __name__ == '__main__':
    main()
