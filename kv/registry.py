"""registry.py -- every query (contract x harness x shapes) and static fact, by property."""

TRUST_MSG = 'error()/warning()/log_message() of tldevel.c replaced by no-op stubs (variadic vfprintf printers)'
A_FLOAT = 'machine floats are IEEE-754 binary32/64 as modelled bit-precisely by CBMC (round-to-nearest-even)'
A_NOFAIL = 'malloc assumed not to fail in this query (--no-malloc-may-fail); allocation-failure paths are covered by the C05/C16 queries'
A_WRAP = 'contract enforced by a harness wrapper (assume requires; call the real body; assert the K_POST_* ensures text); the assigns frame is NOT checked in this query (goto-instrument --dfcc could not finish on it)'

QUERIES = []
HOOK_COMMITS = []
import os
NOT_YET = {}
NOTES = ('Contract-based deductive verification of the real kalign sources with CBMC; see DESIGN.md. '
         'Obligation classes: (P) proved unbounded / full-domain, (B) bounded stand-in, (S) static fact; never mixed in counts.')
STATIC_FACTS = []
PROPS = {}


def Q(**kw):
    QUERIES.append(kw)


def by_id():
    return {q['id']: q for q in QUERIES}


# =========================================================================== C09
PROPS['C09'] = dict(
    level='proof',
    level_text=('aln_param_init, set_aln_type, run_kalign and init_param are checked against post-conditions taken from the property statement and README '
                'for ALL argument values (full float domain incl. NaN/inf, every type constant, every biotype value, an arbitrary matrix cell); '
                'all loops are bounded by constants of the code (23x23, 5x5, word length) and completely unwound with passing unwinding assertions, '
                'so every obligation is discharged for the whole input domain'),
    level_note=('trusted: no-op diagnostic printers, textbook strstr stub, recording stubs for the library entry points called by run_kalign; '
                'malloc assumed to succeed; frame (assigns) not checked because goto-instrument --dfcc does not finish on 23x23 heap tables; '
                'getopt loop of main() not under contract'),
    technique='CBMC function contracts (wrapper-enforced post-conditions), complete unwinding of constant loops, SAT (cadical); native replay of counterexamples',
    explanation='',
    assumptions=[A_FLOAT,
                 'option parsing in main() (getopt_long_only, atof, atoi) is not under contract: the values stored into struct parameters by the getopt loop are taken as "what the caller selected"',
                 'universal generalisation over the ghost matrix cell (kv_gi,kv_gj) and ghost word index is the only step outside the verifier'],
)
Q(id='C09.aln_param_init', props=['C09'], cls='P', harness='c09_aln_param_init.c', entry='h_c09_aln_param_init',
  mode='wrap', unwind=24, timeout=600, solver=['--sat-solver', 'cadical'], funcs=['aln_param_init', 'set_subm_gaps_DNA', 'set_subm_gaps_DNA_internal', 'set_subm_gaps_RNA',
                                               'set_subm_gaps_CorBLOSUM66_13plus', 'set_subm_gaps_gon250', 'aln_param_free'],
  trusted=[TRUST_MSG], assumptions=[A_NOFAIL, A_WRAP],
  native_srcs=['lib/src/tldevel.c'])
Q(id='C09.set_aln_type', props=['C09'], cls='P', harness='c09_run_kalign.c', entry='h_c09_set_aln_type',
  mode='wrap', unwind=16, timeout=300, funcs=['set_aln_type'], defs=['-DKV_ENTRY_set_aln_type'],
  trusted=[TRUST_MSG, 'strstr: textbook stub (contracts/stubs_str.h); strcpy: CBMC library body'], assumptions=[A_WRAP],
  native_srcs=['lib/src/tldevel.c', 'lib/src/tlmisc.c'])
Q(id='C09.run_kalign', props=['C09', 'C05'], cls='P', harness='c09_run_kalign.c', entry='h_c09_run_kalign',
  mode='wrap', unwind=5, timeout=300, funcs=['run_kalign', 'init_param', 'free_parameters'],
  trusted=[TRUST_MSG, 'kalign_read_input/kalign_run/kalign_write_msa/kalign_free_msa replaced by recording stubs in this query (their own contracts are checked in other queries)'],
  assumptions=[A_WRAP, A_NOFAIL],
  native_srcs=['lib/src/tldevel.c', 'lib/src/tlmisc.c'])

Q(id='C09.main', props=['C09', 'C04', 'C05'], cls='B', harness='c09_main.c', entry='h_c09_main',
  mode='wrap', unwind=12, timeout=900, funcs=['main', 'run_kalign', 'set_aln_type', 'init_param', 'free_parameters', 'check_msa_format_string'],
  trusted=[TRUST_MSG, 'getopt_long_only: stub delivering two symbolic option codes with distinct argument strings, then -1 and optind', 'atof / atoi: stubs returning one symbolic value per argument string',
           'isatty: symbolic; fileno: 0', 'kalign_read_input/kalign_run/kalign_write_msa/kalign_free_msa: recording stubs', 'strstr: textbook stub'],
  assumptions=[A_WRAP, A_NOFAIL, 'bounded: command lines with two options (any two of --type -f -n -q --set --gpo --gpe --tgpe -i -o, repeats included) and 0-2 positional files; --help / --version / --showw / unknown options end the program before a run and are not exercised'],
  native_srcs=['lib/src/tldevel.c', 'lib/src/tlmisc.c'])
# =========================================================================== alphabets (C14, C05)
Q(id='C14.create_alphabet', props=['C14', 'C05'], cls='P', harness='c14_alphabet.c', entry='h_c14_alphabet',
  mode='dfcc', enforce=['create_alphabet'], unwind=130, timeout=600,
  funcs=['create_alphabet', 'create_default_protein', 'create_protein_BZX', 'create_default_DNA', 'create_reduced_protein',
         'create_reduced_protein2', 'merge_codes', 'merge_multiple', 'clean_and_set_to_extern'],
  trusted=[TRUST_MSG], assumptions=[A_NOFAIL], native_srcs=['lib/src/tldevel.c'])
Q(id='C05.convert_msa_to_internal', props=['C05', 'C14'], cls='P', harness='c05_convert.c', entry='h_c05_convert',
  mode='dfcc', loop_contracts=True, loops_files=['msa_op.convert.loops'], enforce=['convert_msa_to_internal'], replace=['create_alphabet'], unwind=130, timeout=900,
  defs=['-DKV_CONTRACT_CONVERT2'],
  srcs=[], funcs=['convert_msa_to_internal'], replayable=False,
  trusted=[TRUST_MSG, 'create_alphabet replaced by its contract (proved in C14.create_alphabet)'],
  assumptions=[A_NOFAIL, 'data invariant: residues stored in seq->seq[] are ASCII letters (established by the readers, see C04/C05 reader queries); instantiated for the ghost residue only',
               'sequence loop unwound for 2 sequences (each iteration independent); residue loop closed by invariant for any length'])

# =========================================================================== C13 detect_alphabet
A_LOG = 'LOG-axioms: libm log() assumed within 1e-9 of the mathematical value for the 5 constants detect_alphabet evaluates (contracts/stubs_log.h)'
A_REPS = ('histogram restricted to 13 representative positions (3 letters shared by both models, U/u, 3 protein-only letters, 2 letters in neither model, 3 non-letter characters); '
          'each count symbolic in 0..4095 (quick) / 0..1e6 (thorough); the other 115 entries are 0')
SOLVER_C13 = ['--sat-solver', 'cadical']
A_REPS6 = ('histogram restricted to 6 representative positions, one or two per class of the two letter models (A and U: in both models; D, y: protein-only; B: letter in neither model; -: non-letter); '
           'each count symbolic in 0..255 (quick) / 0..4095 (thorough); the other 122 entries are 0')
for pm in (1, 2):
    Q(id='C13.detect_alphabet.premise%d' % pm, props=['C13'] + (['C14', 'C04'] if pm == 1 else []), cls='B', harness='c13_detect_alphabet.c', entry='h_c13_detect',
      mode='wrap', unwind=130, timeout=1500, defs=['-DKV_PREMISE=%d' % pm, '-DKV_C13_REPS6'], funcs=['detect_alphabet'],
      shapes=(lambda tier: [dict(name='counts255', defs=dict(KV_MAXCOUNT=255))] if tier == 'quick' else [dict(name='counts4095', defs=dict(KV_MAXCOUNT=4095))]),
      solver=SOLVER_C13,
      trusted=[TRUST_MSG], assumptions=[A_LOG, A_REPS6, A_FLOAT, A_WRAP], native_srcs=['lib/src/tldevel.c', 'lib/src/msa_alloc.c', 'lib/src/alphabet.c'])
    # (a 13-representative variant of this query did not finish in 40 min and is not registered)

# =========================================================================== C17
Q(id='C17.compare_pair', props=['C17'], cls='P', harness='c17_compare_pair.c', entry='h_c17_compare_pair',
  mode='dfcc', enforce=['compare_pair'], loop_contracts=True, loops_files=['msa_cmp.loops'], unwind=12, timeout=900, replayable=False,
  funcs=['compare_pair'], trusted=[TRUST_MSG, 'isalpha: CBMC C-locale model (-D__NO_CTYPE)'],
  assumptions=[A_NOFAIL, 'row widths 1..1000 (KV_MAXW); counters below 2^60',
               'premise of C17 instantiated by a ghost assume between loops 2 and 3 of compare_pair: each row has the same number of residues in both alignments'])
Q(id='C17.msa_compare.bound', props=['C17'], cls='P', harness='c17_msa_compare.c', entry='h_c17_bound', defs=['-DKV_STUB_CMP_CALLEES', '-DKV_N=3'],
  mode='dfcc', replace=['compare_pair'], loops_files=['msa_cmp.loops'], unwind=130, timeout=900, replayable=False,
  funcs=['kalign_msa_compare'],
  trusted=[TRUST_MSG, 'compare_pair replaced by its contract (proved in C17.compare_pair)',
           'finalise_alignment / kalign_check_msa / kalign_sort_msa stubbed as no-ops in this query (alignments already FINAL; row matching by name is checked in C17.exact and C17.sort_by_both)'],
  assumptions=[A_NOFAIL, '3 rows (pair loops unwound), row width symbolic 1..1000',
               'FLOAT-mono: for integers 0 <= a <= b, b > 0 the IEEE expression (float)(100.0*a/b) lies in [0,100] (checked bit-precisely only on the small shapes of C17.exact)'])
def _c17_shapes(tier):
    out = []
    ws = [(2, 2, 2), (2, 3, 3), (2, 2, 3), (3, 2, 2)] if tier == 'quick' else [(2, 2, 2), (2, 3, 3), (2, 2, 3), (2, 3, 4), (2, 4, 4), (3, 2, 2), (3, 3, 3), (3, 2, 3)]
    for n, wr, wt in ws:
        out.append(dict(name='n%d_wr%d_wt%d' % (n, wr, wt), defs=dict(KV_N=n, KV_WR=wr, KV_WT=wt)))
    return out
Q(id='C17.exact', props=['C17'], cls='B', harness='c17_msa_compare.c', entry='h_c17_exact', shapes=_c17_shapes,
  mode='wrap', unwind=12, timeout=1200, funcs=['kalign_msa_compare', 'compare_pair', 'kalign_check_msa', 'kalign_sort_msa', 'sort_by_both', 'sort_by_name', 'sort_by_chksum', 'GCGchecksum'],
  srcs=['lib/src/msa_check.c', 'lib/src/msa_op.c', 'lib/src/msa_alloc.c', 'lib/src/alphabet.c'],
  native_srcs=['lib/src/tldevel.c', 'lib/src/msa_check.c', 'lib/src/msa_op.c', 'lib/src/msa_alloc.c', 'lib/src/alphabet.c'],
  trusted=[TRUST_MSG, 'qsort: insertion-sort stub calling the real comparator (contracts/stubs_qsort.h)', 'isalpha/toupper/strncmp/strnlen: CBMC library models'],
  assumptions=[A_NOFAIL, A_WRAP, A_FLOAT, 'bounded: 2-3 rows, widths 2-4, symbols {A,c,-,.}; alignments passed in FINAL state (finalise_alignment is covered by C01)'])

def _c17_state_shapes(tier):
    out = []
    for n, w in ([(2, 2), (2, 3)] if tier == 'quick' else [(2, 2), (2, 3), (3, 2)]):
        for rs, ts in ((1, 0), (0, 1), (1, 1)):
            out.append(dict(name='n%d_w%d_r%d_t%d' % (n, w, rs, ts), defs=dict(KV_N=n, KV_WR=w, KV_WT=w, KV_W=w, KV_RSTATE=rs, KV_TSTATE=ts)))
    return out
Q(id='C17.exact.states', props=['C17'], cls='B', harness='c17_msa_compare.c', entry='h_c17_exact', shapes=_c17_state_shapes,
  mode='wrap', unwind=12, timeout=1200, loops_files=['msa_op.finalise.loops'], shrink=True,
  funcs=['kalign_msa_compare', 'finalise_alignment', 'make_linear_sequence', 'compare_pair', 'kalign_check_msa', 'kalign_sort_msa', 'sort_by_both', 'GCGchecksum'],
  srcs=['lib/src/msa_check.c', 'lib/src/msa_op.c', 'lib/src/msa_alloc.c', 'lib/src/alphabet.c'],
  native_srcs=['lib/src/tldevel.c', 'lib/src/msa_check.c', 'lib/src/msa_op.c', 'lib/src/msa_alloc.c', 'lib/src/alphabet.c'],
  trusted=[TRUST_MSG, 'qsort: insertion-sort stub calling the real comparator (contracts/stubs_qsort.h)', 'isalpha/toupper/strncmp/strnlen: CBMC library models',
           'identity substitution of the row width in finalise_alignment (contracts/msa_op.finalise.loops)'],
  assumptions=[A_NOFAIL, A_WRAP, A_FLOAT, 'bounded: 2-3 rows, width 2-3 (both alignments the same width), symbols {A,c,-,.}; the reference and / or the test alignment handed over in the form a file reader returns (residues + gap counts, status ALIGNED)'])
# =========================================================================== C11
for _mm, _tier, _to in ((16, 'quick', 900), (63, 'thorough', 3600)):
    Q(id='C11.bpm.m%d' % _mm, props=['C11'], cls='P', harness='c11_bpm.c', entry='h_c11_bpm', tier=_tier,
      mode='dfcc', enforce=['bpm'], loop_contracts=True, loops_files=['bpm.bpm.loops'], unwind=70, timeout=_to, replayable=False,
      pre_unwind={'bpm.0': 15, 'bpm.1': 66, 'kv_col_init.0': 67, 'kv_col_step.0': 66},
      defs=['-DKV_MAXN=4096', '-DKV_BPM_MAXM=%d' % _mm],
      solver=['--sat-solver', 'cadical'], mem_gb=24,
      funcs=['bpm'], trusted=[TRUST_MSG],
      assumptions=['pattern length 1..%d (the quantified clauses of the invariant expand to that many rows); text length symbolic 0..4096 (bounds only the size of the is_fresh object: the text loop is closed by its invariant, every iteration count)' % _mm,
                   'data invariant instance: each text symbol read is < 13 (internal codes of the distance alphabets, proved at convert_msa_to_internal: s[j] < L, L <= 13)',
                   'Sellers column recurrence (contracts/bpm.contracts.h) is taken as the definition of "minimum over all substrings of the edit distance"',
                   'measured: 56 s for patterns <= 16, 677 s for patterns <= 63 (cadical)'])

# =========================================================================== C01 / C10 weave
def _lens_options(n, p):
    """member lengths of a completed group of n sequences and width p (a group of one is the bare sequence);
    only combinations for which a group without all-gap column exists (sum of lengths >= width)"""
    import itertools
    if n == 1:
        return [(p,)]
    return [t for t in itertools.product(range(1, p + 1), repeat=n) if sum(t) >= p and max(t) <= p]


def _weave_shapes(tier):
    out = []
    def add(na, nb, pa, pb):
        for la in _lens_options(na, pa):
            for lb in _lens_options(nb, pb):
                for L in range(max(pa, pb), pa + pb):
                    lens = '{' + ','.join(str(x) for x in la + lb) + '}'
                    out.append(dict(name='na%d_nb%d_pla%d_plb%d_lens%s_L%d' % (na, nb, pa, pb, ''.join(str(x) for x in la + lb), L),
                                    defs=dict(KV_NA=na, KV_NB=nb, KV_PLA=pa, KV_PLB=pb, KV_L=L, KV_LENS=lens)))
    if tier == 'quick':
        # every branch of the merge code is crossed by these (about 130 queries, a few seconds each):
        for pa in (1, 2, 3):
            for pb in (1, 2, 3):
                if pa + pb <= 5:
                    add(1, 1, pa, pb)
        for pa, pb in ((1, 1), (2, 1), (2, 2), (1, 2), (3, 1), (2, 3)):
            add(2, 1, pa, pb)
            add(1, 2, pb, pa)
        # the smallest size in which two separate insertions fall into ONE existing gap run (GA M GA M against a member "-A")
        add(2, 1, 2, 4)
        add(1, 2, 4, 2)
        for pa, pb in ((1, 1), (2, 1), (1, 2), (2, 2)):
            add(2, 2, pa, pb)
        # two groups of two, widths 3 and 4, one member of b with a gap and exactly plen[a] residues (see the thorough tier)
        n0 = len(out)
        add(2, 2, 3, 4)
        out[n0:] = [x for x in out[n0:] if x['name'].split('_lens')[1].split('_')[0] in ('3343', '3334')]
        return out
    pls, groups, maxsum = [1, 2, 3, 4], [(1, 1), (1, 2), (2, 1), (2, 2), (3, 1), (1, 3)], 7
    for na, nb in groups:
        for pa in pls:
            for pb in pls:
                if pa + pb > maxsum:
                    continue
                if na + nb >= 4 and pa + pb > 6:
                    continue
                add(na, nb, pa, pb)
    # two groups of two, widths 3 and 4: the smallest size in which a member of b that already has a gap has exactly plen[a] residues
    # and b receives a new gap behind that gap (seed C10_c)
    add(2, 2, 3, 4)
    return out
Q(id='C01.weave', props=['C01', 'C10'], cls='B', harness='c01_weave.c', entry='h_c01_weave', shapes=_weave_shapes,
  mode='wrap', unwind=12, timeout=900, loops_files=['weave.loops', 'aln_run.loops'], shrink=True,
  funcs=['do_align', 'add_gap_info_to_path_n', 'mirror_path_n', 'make_seq', 'update_gaps', 'init_alnmem', 'alloc_aln_mem', 'resize_aln_mem'],
  srcs=['lib/src/weave_alignment.c', 'lib/src/aln_mem.c'],
  native_srcs=['lib/src/tldevel.c', 'lib/src/weave_alignment.c', 'lib/src/aln_mem.c'],
  trusted=[TRUST_MSG, 'aln_runner replaced by its contract as a stub: writes ANY monotone partial matching into m->path (what the DP components of C07 establish)',
           'make_profile_n / set_gap_penalties_n / update_n replaced by frame-only stubs (they touch only profile buffers)'],
  assumptions=[A_NOFAIL, A_WRAP, 'bounded: groups of 1-2 (thorough 1-3) members, group widths 1-3 (thorough 1-4); member lengths and the merged width L are enumerated as concrete shapes (case split), gap vectors and DP result symbolic; identity substitution of path[0] by the case constant KV_L in three malloc sizes (contracts/weave.loops, aln_run.loops)'])

def _run_shapes(tier):
    import itertools
    out = []
    # (3,1,2,1): four sequences, the longest first and a shortest last, the middle ones out of length order (restoring the input order must move them)
    lens_sets = [(2, 1), (1, 1), (2, 0, 1), (0, 2, 2), (1, 0), (0, 0, 1), (3, 1), (3, 1, 2, 1)] if tier == 'quick' else \
        [t for n in (2, 3) for t in itertools.product(range(0, 4), repeat=n)] + [(3, 1, 2, 1), (2, 1, 2, 1)]
    for lens in lens_sets:
        nz = [x for x in lens if x > 0]
        ws = range(max(nz), max(nz) + 3) if len(nz) >= 2 else [1]
        for w in ws:
            out.append(dict(name='lens%s_w%d' % (''.join(map(str, lens)), w),
                            defs=dict(KV_N=len(lens), KV_LENS='{' + ','.join(map(str, lens)) + '}', KV_W=w)))
    return out
Q(id='C01.kalign_run', props=['C01', 'C04', 'C03'], cls='B', harness='c01_run.c', entry='h_c01_run', shapes=_run_shapes,
  mode='wrap', unwind=14, timeout=600, loops_files=['msa_op.finalise.loops'], shrink=True,
  funcs=['kalign_run', 'kalign_essential_input_check', 'dealign_msa', 'msa_sort_len_name', 'sort_by_len_name', 'finalise_alignment',
         'make_linear_sequence', 'msa_sort_rank', 'sort_by_rank', 'kalign_msa_to_arr'],
  srcs=['lib/src/msa_check.c', 'lib/src/msa_op.c', 'lib/src/msa_sort.c', 'lib/src/msa_alloc.c', 'lib/src/alphabet.c', 'lib/src/tlrng.c'],
  native_srcs=['lib/src/tldevel.c', 'lib/src/msa_check.c', 'lib/src/msa_op.c', 'lib/src/msa_sort.c', 'lib/src/msa_alloc.c', 'lib/src/alphabet.c', 'lib/src/tlrng.c'],
  trusted=[TRUST_MSG, 'qsort: insertion-sort stub calling the real comparator', 'esl_stopwatch_*: no-op stubs',
           'build_tree_kmeans / create_msa_tree replaced by contract stubs (require: input de-aligned, >= 2 non-empty sequences; ensure: a well-formed alignment)',
           'convert_msa_to_internal, aln_param_init/free, alloc_tasks/free_tasks: frame-only stubs (each has its own contract query)'],
  assumptions=[A_NOFAIL, A_WRAP, 'bounded: 2-3 sequences (and two 4-sequence shapes) of 0-3 residues, gap counts 0-2, widths case-split; data invariant of detect_aligned instantiated: status UNALIGNED only if all gap counts are 0'])

def _lifecycle_shapes(tier):
    out = []
    sets = [((1, 1), 1), ((2, 0, 1), 1), ((1, 1, 0, 0), 0), ((1, 1, 0, 0), 1)] if tier == 'quick' else \
           [((1, 1), 1), ((2, 0, 1), 1), ((0, 1, 1), 2), ((1, 1, 0, 0), 0), ((1, 1, 0, 0), 1), ((0, 1, 0, 1), 1), ((1, 0, 0, 0), 1)]
    for lens, spare in sets:
        nz = [x for x in lens if x > 0]
        w = (max(nz) + 1) if len(nz) >= 2 else 1
        out.append(dict(name='lens%s_spare%d_w%d' % (''.join(map(str, lens)), spare, w),
                        defs=dict(KV_N=len(lens), KV_LENS='{' + ','.join(map(str, lens)) + '}', KV_W=w, KV_SPARE=spare)))
    return out
Q(id='C16.kalign_run.lifecycle', props=['C16', 'C05', 'C01'], cls='B', harness='c01_run.c', entry='h_c01_run', shapes=_lifecycle_shapes,
  mode='wrap', unwind=14, timeout=900, loops_files=['msa_op.finalise.loops'], shrink=True, leak_check=True, defs=['-DKV_LIFECYCLE'],
  funcs=['kalign_run', 'kalign_essential_input_check', 'set_sip_nsip', 'kalign_free_msa', 'free_msa_seq', 'dealign_msa', 'msa_sort_len_name', 'finalise_alignment', 'msa_sort_rank', 'kalign_msa_to_arr'],
  srcs=['lib/src/msa_check.c', 'lib/src/msa_op.c', 'lib/src/msa_sort.c', 'lib/src/msa_alloc.c', 'lib/src/alphabet.c', 'lib/src/tlrng.c'],
  native_srcs=['lib/src/tldevel.c', 'lib/src/msa_check.c', 'lib/src/msa_op.c', 'lib/src/msa_sort.c', 'lib/src/msa_alloc.c', 'lib/src/alphabet.c', 'lib/src/tlrng.c'],
  trusted=[TRUST_MSG, 'qsort: insertion-sort stub calling the real comparator', 'esl_stopwatch_*: no-op stubs',
           'build_tree_kmeans / create_msa_tree / convert_msa_to_internal / aln_param_init / alloc_tasks replaced by the stubs of C01.kalign_run (they allocate nothing here; their own pairs are C16.alloc_pairs)'],
  assumptions=[A_NOFAIL, A_WRAP, 'bounded: 2-4 sequences of 0-2 residues (up to two of them empty), 0-2 spare pre-allocated records; leak = CBMC --memory-leak-check after the real kalign_free_msa'])
# =========================================================================== C07 / C08 kernels
def _kernel_shapes(tier):
    out = []
    rows = [1, 2] if tier == 'quick' else [1, 2, 3]
    lbs = [2, 3] if tier == 'quick' else [2, 3, 4]
    psets = [0, 2] if tier == 'quick' else [0, 1, 2]
    for r in rows:
        for lb in lbs:
            for sb in (0, 1):
                for eb in (lb - 1, lb):
                    if eb - sb < 1:
                        continue
                    for ps in psets:
                        for ins in (0, 1, 2):
                            out.append(dict(name='rows%d_lb%d_sb%d_eb%d_p%d_in%d' % (r, lb, sb, eb, ps, ins),
                                            defs=dict(KV_ROWS=r, KV_LB=lb, KV_SB=sb, KV_EB=eb, KV_PSET=ps, KV_IN=ins)))
    return out
A_KFLOAT = 'parameters concrete (dna, internal and a 3x3 corner of CorBLOSUM66_13plus with their penalties), boundary state one of the three unit vectors the recursion uses, residues symbolic (fully symbolic floats made a 1x2 rectangle run > 20 min)'
Q(id='C07.seqseq.fwd_ref', props=['C07', 'C08'], cls='B', harness='c07_seqseq.c', entry='h_c07_fwd_ref', shapes=_kernel_shapes,
  mode='wrap', unwind=8, timeout=1500, funcs=['aln_seqseq_foward'], trusted=[TRUST_MSG],
  assumptions=[A_FLOAT, A_KFLOAT, A_WRAP, 'bounded: rectangles of 1-2 (thorough 1-3) rows x 2-3 (thorough 2-4) columns, every start/end-of-b combination, 3 residue codes'],
  native_srcs=['lib/src/tldevel.c'])
Q(id='C07.seqseq.bwd_mirror', props=['C07', 'C08'], cls='B', harness='c07_seqseq.c', entry='h_c07_bwd_mirror', shapes=_kernel_shapes, defs=['-DKV_ENTRY_MIRROR'],
  mode='wrap', unwind=8, timeout=1500, funcs=['aln_seqseq_backward', 'aln_seqseq_foward'], trusted=[TRUST_MSG],
  assumptions=[A_FLOAT, A_KFLOAT, A_WRAP, 'bounded: same rectangles as C07.seqseq.fwd_ref'],
  native_srcs=['lib/src/tldevel.c'])

# =========================================================================== static facts (S)
def S(**kw):
    STATIC_FACTS.append(kw)

ALIGN_STAGE_FILES = ['lib/src/aln_*.c', 'lib/src/bisectingKmeans.c', 'lib/src/bpm.c', 'lib/src/sequence_distance.c',
                     'lib/src/weave_alignment.c', 'lib/src/pick_anchor.c', 'lib/src/euclidean_dist.c', 'lib/src/task.c',
                     'lib/src/msa_sort.c']        # the canonical order feeds the aligner: it may not look at residue bytes either (seed C14_c)
S(id='seq_bytes_not_read_by_aligner', props=['C14', 'C01'], kind='sites_equal', pattern=r'->\s*seq\b', files=ALIGN_STAGE_FILES, expected=[],
  text='no function of the alignment stage (canonical sorting, tree building, distance, DP kernels, weaving) touches the residue bytes seq->seq: the gap pattern is computed from the internal codes s[] only, residue bytes are only copied by make_linear_sequence')
S(id='internal_code_writers', props=['C14', 'C05'], kind='sites_equal', pattern=r'->\s*s\s*\[', files=['lib/src/msa_*.c', 'lib/src/aln_*.c', 'lib/src/bisectingKmeans.c', 'lib/src/bpm.c', 'lib/src/sequence_distance.c', 'lib/src/weave_alignment.c', 'lib/src/pick_anchor.c', 'lib/src/alphabet.c'],
  expected=['lib/src/msa_op.c:convert_msa_to_internal', 'lib/src/msa_op.c:msa_seq_cpy'],
  text='the internal code array ->s[..] is indexed (hence possibly written) only in convert_msa_to_internal (proved: every element < L) and msa_seq_cpy (copies)')
S(id='rank_sites', props=['C03', 'C01'], kind='sites_equal', pattern=r'->\s*rank\b', files=['lib/src/*.c', 'src/*.c'],
  expected=['lib/src/msa_alloc.c:alloc_msa_seq', 'lib/src/msa_check.c:kalign_essential_input_check', 'lib/src/msa_op.c:msa_seq_cpy', 'lib/src/msa_sort.c:sort_by_rank'],
  text='the caller-order rank is written by kalign_essential_input_check (and constructors/copy) and read only by sort_by_rank: no computation depends on the input position')
S(id='rng_sites', props=['C03', 'C16', 'C02'], kind='sites_equal',
  pattern=r'\b(tl_random_\w+|rand|srand|random|drand48|init_rng|init_rng_from_rng)\s*\(', files=['lib/src/*.c', 'src/*.c'],
  expected=['lib/src/bpm_test.c:bpm_test', 'lib/src/bpm_test.c:mutate_seq', 'lib/src/euclidean_dist.c:main', 'lib/src/msa_sort.c:msa_shuffle_seq', 'lib/src/task.c:main',
            'lib/src/tlrng.c:<file scope>', 'lib/src/tlrng.c:tl_gauss', 'lib/src/tlrng.c:tl_random_gaussian', 'lib/src/tlrng.c:tl_random_int',
            'lib/src/tlrng.c:tl_standard_exponential', 'lib/src/tlrng.c:tl_standard_gamma'],
  text='random numbers are drawn only inside tlrng.c itself, unit-test mains (UTEST builds), bpm_test.c and msa_shuffle_seq')
S(id='shuffle_not_called', props=['C03', 'C16', 'C02'], kind='sites_equal', pattern=r'\bmsa_shuffle_seq\s*\(', files=['lib/src/*.c', 'src/*.c'],
  expected=['lib/src/msa_sort.c:<file scope>'],
  text='msa_shuffle_seq (the only library function that draws random numbers) is defined but never called from library or CLI code')
S(id='static_storage', props=['C16', 'C02'], kind='static_storage', files=['lib/src/*.c', 'src/*.c'],
  expected=['lib/src/bpm.c: __m256i BROADCAST_MASK[16]', 'lib/src/esl_stopwatch.c: local: static double timeConvert = 0.0;',
            'lib/src/tlrng.c: local: static const uint64_t JUMP[] =', 'lib/src/tlrng.c: local: static const uint64_t LONG_JUMP[] =',
            'src/run_kalign.c: local: static struct option long_options[] =', 'src/run_reformat.c: local: static struct option long_options[] ='],
  text='complete list of objects with static storage duration in lib/src and src: the AVX2 mask table (constant stores, AVX2 builds only), two const jump tables, a Mach-only timer constant and getopt option tables -- no mutable state survives a library call')
S(id='omp_threadnum_absent', props=['C02'], kind='absent', pattern=r'omp_get_thread_num|omp_get_num_threads|#\s*pragma\s+omp\s+(critical|atomic|ordered|flush)', files=['lib/src/*.c'], keep_pp=True,
  text='no code depends on the thread id / team size and there are no critical/atomic sections (results cannot depend on which thread ran a task)')
S(id='omp_tree_merge_order', props=['C02', 'C10'], kind='order', files=['lib/src/aln_run.c'], function='recursive_aln', keep_pp=True,
  sequence=[r'#pragma omp task', r'recursive_aln\(msa, t, ap, active, a\)', r'#pragma omp task', r'recursive_aln\(msa, t, ap, active, b\)', r'#ifdef HAVE_OPENMP\s*#pragma omp taskwait\s*#endif', r'alloc_aln_mem\(&ml', r'do_align\(msa,t,ml,c\)', r'free_aln_mem\(ml\)'],
  text='recursive_aln: both child merges are spawned as tasks, an UNCONDITIONAL taskwait follows (directly inside its #ifdef HAVE_OPENMP, not inside an if), and only then the merge of this node runs, with an aln_mem allocated privately for this merge')
S(id='omp_hirschberg_order', props=['C02'], kind='order', files=['lib/src/aln_controller.c'], function='aln_runner', keep_pp=True,
  sequence=[r'#pragma omp task', r'aln_seqseq_foward\(m\)', r'#pragma omp task', r'aln_seqseq_backward\(m\)', r'#ifdef HAVE_OPENMP\s*#pragma omp taskwait\s*#endif', r'aln_seqseq_meetup\(',
            r'#pragma omp task', r'aln_profileprofile_foward\(m\)', r'#pragma omp task', r'aln_profileprofile_backward\(m\)', r'#ifdef HAVE_OPENMP\s*#pragma omp taskwait\s*#endif', r'aln_profileprofile_meetup\(',
            r'#pragma omp task', r'aln_seqprofile_foward\(m\)', r'#pragma omp task', r'aln_seqprofile_backward\(m\)', r'#ifdef HAVE_OPENMP\s*#pragma omp taskwait\s*#endif', r'aln_seqprofile_meetup\('],
  text='aln_runner: forward and backward halves are two tasks, joined by taskwait before the meet-in-the-middle step, for each of the three kernels')
S(id='omp_kmeans_order', props=['C02'], kind='order', files=['lib/src/bisectingKmeans.c'], function='bisecting_kmeans', keep_pp=True,
  sequence=[r'#pragma omp task', r'split2\([^;]*&res\[0\]\)', r'#pragma omp task', r'split2\([^;]*&res\[1\]\)', r'#pragma omp task', r'split2\([^;]*&res\[2\]\)',
            r'#pragma omp task', r'split2\([^;]*&res\[3\]\)', r'#ifdef HAVE_OPENMP\s*#pragma omp taskwait\s*#endif', r'for\(j = 0; j < 4;j\+\+\)',
            r'#pragma omp task', r'bisecting_kmeans\(msa,&n->left', r'#pragma omp task', r'bisecting_kmeans\(msa,&n->right', r'#ifdef HAVE_OPENMP\s*#pragma omp taskwait\s*#endif', r'\*ret_n =n'],
  text='bisecting_kmeans: four restarts write res[0..3] as separate tasks, taskwait, then a fixed-order reduction; the two recursive halves are tasks joined by taskwait')
S(id='omp_set_num_threads_each_call', props=['C16', 'C02'], kind='order', files=['lib/src/aln_wrap.c'], function='kalign_run', keep_pp=True,
  sequence=[r'kalign_essential_input_check', r'omp_set_num_threads\(n_threads\)', r'build_tree_kmeans'],
  text='kalign_run sets the OpenMP thread count from its argument on every call, before any parallel region')


# =========================================================================== property metadata (MANIFEST / evidence)
T_CB = 'CBMC function contracts on the real sources'
EXPL_COMMON = ('Obligation classes are kept apart: coverage.obligations/discharged count only (P) queries (unbounded in the input size or full-domain, loop contracts or complete unwinding of constant loops); '
               'coverage.bounded reports the (B) stand-ins (same contract, same real function, loops unwound on enumerated concrete shapes, contents symbolic); coverage.static_facts the (S) syntactic premises. ')

PROPS['C01'] = dict(
    level='other',
    level_text=('bounded contract check of the real merge step (do_align / add_gap_info_to_path_n / mirror_path_n / make_seq / update_gaps) for every small shape with symbolic gap vectors and '
                'any DP result, and of the real kalign_run protocol (input check, rank, de-alignment, canonical sort, finalise, sort-by-rank, array export) on small inputs with the tree/DP stages '
                'replaced by contract stubs: rows, names, order, row length, de-gapped row == input bytes, only gap characters added, no all-gap column; '
                'unbounded proofs only for the pieces shared with C05/C14 (convert_msa_to_internal)'),
    level_note=('bounded (group sizes 1-2(3), widths 1-4, 2-3 sequences of 0-3 residues); DP abstracted by assumed contract ALN-1 (monotone alignment without adjacent opposite gaps); '
                'float profile routines, qsort, stopwatch and diagnostics are stubs; writers (file output) are not covered by a finished check; sum-over-array invariants could not be closed by loop contracts (DESIGN 2.2)'),
    technique=T_CB + ' enforced by harness wrapper, bounded unwinding over enumerated shapes (case split), static facts; native ASan replay',
    explanation=EXPL_COMMON + 'C01 is decided by bounded queries only; no unbounded claim is made for the weave arithmetic.',
    assumptions=['composition of per-merge contracts over the guide tree (induction over merges) is a meta-argument, not machine-checked',
                 'file writers are outside this check'])
PROPS['C10'] = dict(
    level='other',
    level_text=('the projection statement is asserted directly on the real merge code: for every pair of residues of one input group, column order and column equality are the same before and after '
                'do_align (K3), gap counts never decrease, member lists are concatenated (K4); all shapes up to the bound, gap vectors and DP result symbolic'),
    level_note='bounded (groups of 1-2(3) members, widths 1-4); DP result abstracted by contract ALN-1; induction over the tree is a meta-argument; OpenMP task order is a static fact',
    technique=T_CB + ' (harness-enforced), bounded unwinding over enumerated shapes with case split on the merged width; static fact on task/taskwait order',
    explanation=EXPL_COMMON,
    assumptions=['induction over merges is a meta-argument'])
PROPS['C05'] = dict(
    level='other',
    level_text=('memory-safety and defined-code obligations (bounds, pointer, overflow, conversion, shift, division checks of CBMC) are discharged together with the functional contracts of '
                'create_alphabet (P), convert_msa_to_internal (P, loop contracts, any sequence length <= 1000), the merge step (B), kalign_run protocol (B), run_kalign exit-status mapping (P), compare_pair (P)'),
    level_note=('readers/writers (msa_io.c) are NOT under a finished contract in this round: malformed-file robustness is not decided here; allocation failure paths not explored (malloc assumed to succeed); '
                'data invariant "residues are ASCII letters" assumed at read sites of convert_msa_to_internal'),
    technique=T_CB + ' via goto-instrument --dfcc with loop contracts (convert_msa_to_internal, create_alphabet) plus bounded wrapper-enforced harnesses; CBMC built-in safety checks',
    explanation=EXPL_COMMON + 'Only the listed functions are covered; the byte-string quantifier over input FILES is not reached (readers not under contract).',
    assumptions=['file readers/writers, getopt loop, OpenMP runtime and AVX2 paths are outside the verified set'])
PROPS['C13'] = dict(
    level='other',
    level_text=('detect_alphabet is checked against both clauses of the property with symbolic letter counts (the 128-entry loops are bounded by the code and completely unwound); '
                'double arithmetic is bit-precise; bounded because only representative histogram positions carry symbolic counts (0..4095)'),
    level_note='log() replaced by interval axioms; counts bounded; representatives per letter class instead of all 128 positions (the full-symbolic query did not finish in 15 min)',
    technique=T_CB + ' (harness-enforced post-conditions), complete unwinding, SAT (cadical) with bit-precise IEEE doubles; native replay',
    explanation=EXPL_COMMON,
    assumptions=['order / naming independence: letter_freq is the only input of detect_alphabet (frame), filled by ++ per byte in the readers (not re-checked here)'])
PROPS['C14'] = dict(
    level='other',
    level_text=('create_alphabet proved (P) for an arbitrary table index: upper/lower case share a code, U == T in the nucleotide alphabet; convert_msa_to_internal proved (P) to write exactly that code for every residue; '
                'static fact: no alignment-stage function reads the residue bytes; detect_alphabet treats both cases alike on the checked representatives (C13 premise-1 query)'),
    level_note='non-interference (gap pattern is a function of s[], lengths and names only) is a meta-argument on top of the static fact; detect_alphabet part is bounded',
    technique=T_CB + ' via goto-instrument --dfcc (ghost index), loop contracts, complete unwinding of constant loops; static facts',
    explanation=EXPL_COMMON,
    assumptions=['meta-argument: the alignment is computed from s[], len and names only (supported by static fact seq_bytes_not_read_by_aligner)'])
PROPS['C17'] = dict(
    level='other',
    level_text=('compare_pair proved (P) for any row width <= 1000 with four loop contracts: reproduced <= reference relations, equal relation totals, counters monotone; '
                'kalign_msa_compare (3 rows, any width) proved to divide with 0 <= a <= b, b > 0 using that contract; exactness, the value 100 and row-order independence checked (B) against an independent count on 2-3 rows x 2-4 columns'),
    level_note='exactness is bounded; IEEE monotonicity of (float)(100.0*a/b) assumed beyond the bounded shapes; qsort stub; alignments passed in FINAL state',
    technique=T_CB + ' via goto-instrument --dfcc, loop contracts with ghost snapshots, contract replacement at the call site; bounded wrapper harness for exactness; native replay',
    explanation=EXPL_COMMON,
    assumptions=['premise of C17 (same sequences in both alignments) instantiated as equal residue counts per row'])
PROPS['C07'] = dict(
    level='other',
    level_text=('component contracts on small rectangles with symbolic residues / scores / penalties / boundary states: the forward kernel equals the three-state affine recurrence written independently as a full-matrix programme (bit for bit), '
                'the backward kernel equals the forward kernel on reversed operands'),
    level_note='bounded (1-3 rows x 2-4 columns); sequence-sequence kernel only in this round; meet-in-the-middle, recursion and profile kernels are not under a finished contract; no end-to-end optimality claim',
    technique=T_CB + ' (harness-enforced), bounded complete unwinding, bit-precise floats',
    explanation=EXPL_COMMON + 'C07 is only partially decided: see level_note.',
    assumptions=['Hirschberg composition is a meta-argument'])

# =========================================================================== C03 comparators
Q(id='C03.sort_by_len_name', props=['C03'], cls='P', harness='c03_comparators.c', entry='h_c03_len_name',
  mode='wrap', unwind=10, timeout=600, funcs=['sort_by_len_name'],
  srcs=['lib/src/tlrng.c'], native_srcs=['lib/src/tldevel.c', 'lib/src/tlrng.c'],
  trusted=[TRUST_MSG, 'strncmp: CBMC library model'],
  assumptions=[A_WRAP, 'names: all NUL-terminated strings of up to 5 bytes (full byte domain); len/rank/alloc_len: full int domain'])
Q(id='C03.sort_by_rank', props=['C03', 'C01'], cls='P', harness='c03_comparators.c', entry='h_c03_rank', defs=['-DKV_ENTRY_RANK'],
  mode='wrap', unwind=10, timeout=600, funcs=['sort_by_rank'],
  srcs=['lib/src/tlrng.c'], native_srcs=['lib/src/tldevel.c', 'lib/src/tlrng.c'],
  trusted=[TRUST_MSG], assumptions=[A_WRAP])
Q(id='C03.sort_by_len_name.longnames', props=['C03'], cls='B', tier='thorough', harness='c03_comparators.c', entry='h_c03_len_name', defs=['-DKV_LONGNAMES', '-DKV_NAMELEN=2'],
  mode='wrap', unwind=262, timeout=900, funcs=['sort_by_len_name'],
  srcs=['lib/src/tlrng.c'], native_srcs=['lib/src/tldevel.c', 'lib/src/tlrng.c'],
  trusted=[TRUST_MSG, 'strncmp: CBMC library model'],
  assumptions=[A_WRAP, 'names share a concrete 256-byte prefix and differ in a symbolic tail of up to 2 bytes'])
PROPS['C03'] = dict(
    level='other',
    level_text=('the canonical order is total and input-order free: sort_by_len_name is proved antisymmetric and equal to (length descending, name ascending) for all lengths and all short names; '
                'sort_by_rank restores the caller order (proved); static facts: rank is read only by sort_by_rank, no random numbers are drawn by library code reachable from kalign_run; '
                'kalign_run protocol (B) shows rows come back in input order'),
    level_note=('relational two-run statement (permuted input => permuted output) is a meta-argument: a deterministic function of the canonical order composed with sort-by-rank; qsort trusted; '
                'names longer than 256 bytes: covered by the thorough-tier query C03.sort_by_len_name.longnames (finding C03-1, fixed)'),
    technique=T_CB + ' (harness-enforced, loop-free / bounded names), static facts',
    explanation=EXPL_COMMON,
    assumptions=['permutation-equivariance by composition is not machine-checked'])
PROPS['C11'] = dict(
    level='other',
    level_text=('bpm() (single 64-bit word) is PROVED equal to the Sellers column recurrence for any text length by a loop contract that ties the bit-vectors VP/VN, diff and k to a ghost DP column '
                '(patterns <= 16 in the quick tier, all patterns 1..63 in the thorough tier); calc_distance is proved to pass the longer sequence as text and to return the kernel value unchanged; '
                'bpm_block (production path) is checked bounded against the same recurrence, including the 64-symbol block boundary'),
    level_note='bpm_256 (AVX2 intrinsics) is not verified; bpm_block only bounded in this round; text symbols < 13 assumed at the read site (data invariant from convert_msa_to_internal)',
    technique=T_CB + ' via goto-instrument --dfcc, loop contract over ghost state (DP column), constant-bound quantifier expanded by SAT (cadical)',
    explanation=EXPL_COMMON,
    assumptions=['Sellers recurrence taken as the definition of the minimum edit distance over all substrings'])
Q(id='C13.detect_alphabet.tables', props=['C13', 'C14', 'C04'], cls='P', harness='c13_detect_alphabet.c', entry='h_c13_detect',
  mode='wrap', unwind=130, timeout=900, defs=['-DKV_C13_TABLES'], loops_files=['msa_op.detect.loops'], funcs=['detect_alphabet'],
  trusted=[TRUST_MSG], assumptions=[A_LOG, A_WRAP, 'table lemma only: the two 128-entry model tables are class-wise constant (ghost index); the decision itself is checked on class representatives in C13.detect_alphabet.premise*'],
  native_srcs=['lib/src/tldevel.c', 'lib/src/msa_alloc.c', 'lib/src/alphabet.c'])

# =========================================================================== readers (C05 / C04 / C16), capacity-shrunk
def _fasta_shapes(tier):
    H, A, G, B, D, N = "'>'", "'A'", "'-'", "' '", "'1'", "(-61)"   # header, letter, gap symbol, blank, digit, byte 0xC3
    sets = [
        [(A, 2)], [(G, 1)], [(N, 2)], [(D, 2)],                 # no header at all
        [(H, 2), (A, 2)], [(H, 2), (G, 2)], [(H, 1), (N, 2)], [(H, 2), (B, 2)],
        [(H, 3), (H, 2)],                                       # empty record
        [(H, 2), (A, 3)],                                       # residue buffer grows (capacity 2)
        [(H, 1), (A, 4)], [(H, 1), (A, 4), (G, 1)],             # two growth steps: the last slot of the re-allocated gap array is used
        [(H, 2), (A, 2), (G, 2)], [(H, 1), (G, 2), (A, 2)],
        [(H, 1), (A, 1), (H, 2), (A, 2)],                       # two records
        [(H, 1), (H, 1), (H, 1)],                               # record table grows (capacity 2)
    ]
    if tier != 'quick':
        sets += [[(H, 2), (A, 5)], [(H, 2), (A, 3), (A, 3)], [(H, 1), (G, 3), (G, 3)], [(H, 2), (D, 2), (A, 2)],
                 [(G, 2), (H, 2), (A, 2)], [(H, 4), (A, 1), (B, 1), (A, 1)]]
    out = []
    for t in sets:
        lens = [x[1] for x in t]
        uw = max(len(t) + 2, max(lens) + 2, sum(lens) + 2, 5)
        out.append(dict(name='lines_' + '_'.join('%s%d' % ({H: 'H', A: 'A', G: 'G', B: 'B', D: 'D', N: 'N'}[x[0]], x[1]) for x in t),
                        defs=dict(KV_LINELENS='{' + ','.join(map(str, lens)) + '}', KV_LINEFIRST='{' + ','.join(x[0] for x in t) + '}'), unwind=uw))
    return out
READER_NATIVE = ['lib/src/tldevel.c', 'lib/src/tlmisc.c', 'lib/src/msa_alloc.c', 'lib/src/msa_op.c', 'lib/src/msa_misc.c', 'lib/src/alphabet.c', 'lib/src/esl_stopwatch.c']
Q(id='C05.read_fasta', props=['C05', 'C04', 'C16'], cls='B', harness='c05_read_fasta.c', entry='h_c05_read_fasta', shapes=_fasta_shapes,
  mode='wrap', unwind=10, timeout=900, loops_files=['msa_alloc.shrink.loops', 'msa_io.shrink.loops'], shrink=True, leak_check=True,
  defs=['-DKV_CAP=2', '-DKV_SEQCAP=2'], object_bits=11,
  funcs=['read_fasta', 'null_terminate_sequences', 'alloc_msa', 'alloc_msa_seq', 'resize_msa', 'resize_msa_seq', 'kalign_free_msa', 'free_msa_seq', 'alloc_in_buffer', 'free_in_buffer'],
  srcs=['lib/src/msa_alloc.c', 'lib/src/msa_op.c', 'lib/src/msa_misc.c', 'lib/src/alphabet.c', 'lib/src/tlmisc.c'],
  native_srcs=READER_NATIVE,
  trusted=[TRUST_MSG, 'isalpha/ispunct: CBMC C-locale models (-D__NO_CTYPE)', 'memcpy/realloc: CBMC library models',
           'R3 capacity shrink: 512-record / 512-residue growth constants replaced by 2 (contracts/msa_alloc.shrink.loops, msa_io.shrink.loops)'],
  assumptions=[A_NOFAIL, A_WRAP, 'bounded: 1-6 lines of 1-5 bytes; the first byte of each line is a concrete class representative (header marker, letter, gap symbol, blank, digit, byte 0xC3), every other byte symbolic over the non-control byte domain incl. >= 0x80; getline/FILE plumbing (read_file_stdin) not covered'])

def _bpm_shapes(tier):
    out = []
    if tier == 'quick':
        mn = [(1, 1), (1, 2), (2, 2), (2, 3), (3, 3), (3, 5), (4, 4)]
    else:
        mn = [(m, n) for m in range(1, 7) for n in range(m, m + 3)] + [(63, 63), (64, 64), (64, 66)]      # (65,65) and (128,128): two and more 64-bit blocks with carries exhaust 30 GB, not registered
    if tier == 'quick':
        mn += [(64, 64)]          # block boundary: last block completely filled (no wildcard padding)
    for m, n in mn:
        sig = 3 if m < 16 else 2
        uw = n + 64 * ((m + 63) // 64) + 70   # generous: text columns + at most one block of padding, and then some
        d = dict(KV_M=m, KV_N=n, KV_SIGMA=sig)
        if m >= 16:
            d['KV_FIXCODES'] = '{12,1}'   # concrete renaming for the long shapes (see the harness)
            d['KV_FREE'] = 5      # 6 or 8 free symbols in the thorough tier: > 1800 s for m63_n63 and m64_n66
        out.append(dict(name='m%d_n%d' % (m, n), defs=d, unwind=uw))
    return out
Q(id='C11.bpm_block', props=['C11', 'C12'], cls='B', harness='c11_bpm_block.c', entry='h_c11_bpm_block', shapes=_bpm_shapes,
  mode='wrap', timeout=1800, funcs=['bpm_block', 'bpm'], trusted=[TRUST_MSG],
  assumptions=[A_WRAP, 'bounded: pattern 1-4 (thorough 1-6) symbols fully symbolic over any 3 pairwise different codes of the 13-symbol alphabet (symbolic injective renaming); patterns of 63 / 64 symbols (one block, block boundary) with only the last 5 symbols of text and pattern symbolic over the two codes 12 and 1; patterns that need two or more blocks (65, 128) exhaust 30 GB and are NOT covered'],
  native_srcs=['lib/src/tldevel.c'])

# =========================================================================== C16 lifecycle
C16_SRCS = ['lib/src/msa_alloc.c', 'lib/src/msa_op.c', 'lib/src/alphabet.c', 'lib/src/task.c', 'lib/src/aln_mem.c', 'lib/src/aln_param.c']
Q(id='C16.arr_to_msa', props=['C16', 'C05', 'C03'], cls='B', harness='c16_lifecycle.c', entry='h_c16_arr_to_msa',
  mode='wrap', unwind=8, timeout=900, leak_check=True, object_bits=10, loops_files=['msa_alloc.shrink.loops'], shrink=True, defs=['-DKV_CAP=2', '-DKV_SEQCAP=2'],
  funcs=['kalign_arr_to_msa', 'detect_alphabet', 'detect_aligned', 'set_sip_nsip', 'kalign_free_msa'],
  srcs=C16_SRCS, native_srcs=['lib/src/tldevel.c'] + C16_SRCS,
  trusted=[TRUST_MSG, A_LOG, 'snprintf: assumed contract stub (writes a NUL-terminated string shorter than size)'], assumptions=[A_NOFAIL, A_WRAP, 'bounded: 2 sequences of 2 and 3 letters; array-API precondition: residues are ASCII letters',
                                          'native replay runs under ASan, whose malloc fills fresh memory with 0xbe: an uninitialised name shows as an unterminated string'])
Q(id='C16.alloc_pairs', props=['C16', 'C05'], cls='B', harness='c16_lifecycle.c', entry='h_c16_alloc_pairs',
  mode='wrap', unwind=8, timeout=900, leak_check=True, object_bits=10, loops_files=['msa_alloc.shrink.loops'], shrink=True, defs=['-DKV_CAP=2', '-DKV_SEQCAP=2', '-DKV_ENTRY_PAIRS'],
  funcs=['alloc_msa', 'resize_msa', 'kalign_free_msa', 'alloc_msa_seq', 'free_msa_seq', 'alloc_tasks', 'free_tasks', 'alloc_aln_mem', 'resize_aln_mem', 'free_aln_mem', 'aln_param_init', 'aln_param_free'],
  srcs=C16_SRCS, native_srcs=['lib/src/tldevel.c'] + C16_SRCS,
  trusted=[TRUST_MSG, 'realloc: byte-copy stub (contracts/stubs_realloc.h)', 'R3 capacity shrink of msa_alloc.c'],
  assumptions=[A_NOFAIL, A_WRAP, 'concrete tiny shapes; allocation failure paths not explored'])
PROPS['C16'] = dict(
    level='other',
    level_text=('static facts: the complete list of objects with static storage in lib/src and src is the expected constant tables, no random numbers are drawn by library code reachable from the API, '
                'the OpenMP thread count is set on every call; bounded contract checks with CBMC memory-leak detection on every constructor/destructor pair and on the readers (everything allocated is freed, '
                'every field later read is initialised: an uninitialised field is nondeterministic heap content to the verifier and fails the post-condition)'),
    level_note='history independence itself (call k in a long history == call k alone) is a meta-argument from "no persistent state + initialising constructors"; allocation-failure paths not explored; OpenMP runtime excluded',
    technique=T_CB + ' (harness-enforced) with --memory-leak-check on concrete shapes; static facts on static storage / RNG use',
    explanation=EXPL_COMMON,
    assumptions=['meta-argument: no persistent mutable state + constructors initialise every field read later => each call is a function of its arguments'])

# =========================================================================== C04 msa-level operations
def _merge_shapes(tier):
    s = [(1, 2), (2, 1), (1, 1), (2, 3)] if tier == 'quick' else [(a, b) for a in range(1, 4) for b in range(1, 4)]
    out = [dict(name='nd%d_ns%d' % (a, b), defs=dict(KV_ND=a, KV_NSRC=b)) for a, b in s]
    # dest (and src) exactly full, as the readers leave them for 512*k records
    out += [dict(name='nd%d_ns%d_full' % (a, b), defs=dict(KV_ND=a, KV_NSRC=b, KV_FULL=1)) for a, b in ([(2, 1), (2, 2)] if tier == 'quick' else [(2, 1), (2, 2), (4, 1), (2, 3)])]
    return out
MSAOPS_SRCS = ['lib/src/msa_alloc.c', 'lib/src/msa_op.c', 'lib/src/alphabet.c']
Q(id='C04.merge_msa', props=['C04', 'C05', 'C16'], cls='B', harness='c04_msa_ops.c', entry='h_c04_merge', shapes=_merge_shapes,
  mode='wrap', unwind=14, timeout=900, leak_check=True, object_bits=10, loops_files=['msa_alloc.shrink.loops'], shrink=True, defs=['-DKV_CAP=2', '-DKV_SEQCAP=2'],
  funcs=['merge_msa', 'resize_msa', 'detect_alphabet', 'detect_aligned', 'set_sip_nsip', 'kalign_free_msa', 'free_msa_seq'],
  srcs=MSAOPS_SRCS, native_srcs=['lib/src/tldevel.c'] + MSAOPS_SRCS,
  trusted=[TRUST_MSG, A_LOG, 'realloc: byte-copy stub', 'R3 capacity shrink of msa_alloc.c (record table grows in steps of 2 instead of 512)'],
  assumptions=[A_NOFAIL, A_WRAP, 'bounded: 1-2 (thorough 1-3) records in dest, 1-3 in src'])
def _detect_shapes(tier):
    s = [(2, 1), (1, 1), (2, 2, 1)] if tier == 'quick' else [(2, 1), (1, 1), (2, 2, 1), (3, 3), (1, 2, 3), (0, 2)]
    return [dict(name='lens' + ''.join(map(str, t)), defs=dict(KV_LENS='{' + ','.join(map(str, t)) + '}')) for t in s]
Q(id='C04.detect_dealign', props=['C04', 'C01', 'C17'], cls='B', harness='c04_msa_ops.c', entry='h_c04_detect_dealign', shapes=_detect_shapes,
  mode='wrap', unwind=8, timeout=900, defs=['-DKV_ENTRY_DETECT', '-DKV_CAP=2', '-DKV_SEQCAP=2'],
  funcs=['detect_aligned', 'dealign_msa'], srcs=MSAOPS_SRCS, native_srcs=['lib/src/tldevel.c'] + MSAOPS_SRCS,
  trusted=[TRUST_MSG, A_LOG], assumptions=[A_NOFAIL, A_WRAP, 'bounded: 2-3 sequences of 0-3 residues, gap counts 0..3 symbolic'])
PROPS['C04'] = dict(
    level='other',
    level_text=('bounded contract checks of the functions that make the result independent of presentation: read_fasta (records = letters of the sequence lines, gap symbols only counted), merge_msa (several inputs = concatenation), '
                'detect_aligned / dealign_msa and the kalign_run protocol (whatever gaps and status the reader delivered, every gap count is zero when tree building and alignment start), '
                'detect_alphabet (non-letters do not take part in the DNA/protein decision)'),
    level_note='read_msf / read_clu / detect_alignment_format / stdin plumbing are not under a finished contract; the two-presentation relational statement follows by composition (equal reader output => same kalign_run input), not machine-checked',
    technique=T_CB + ' (harness-enforced), bounded unwinding on capacity-shrunk copies, native replay',
    explanation=EXPL_COMMON,
    assumptions=['composition: equal msa after reading => equal result (kalign_run is a function of the msa, see C16)'])
Q(id='C04.detect_aligned.manyrows', props=['C04', 'C17', 'C01', 'C03'], cls='B', harness='c04_detect_aligned.c', entry='h_c04_detect_aligned',
  mode='wrap', unwind=64, timeout=600, funcs=['detect_aligned'], trusted=[TRUST_MSG], native_srcs=['lib/src/tldevel.c', 'lib/src/msa_alloc.c', 'lib/src/alphabet.c'],
  assumptions=[A_NOFAIL, A_WRAP, 'bounded: 61 rows, all equal to one gap-free row record of 2 residues except possibly one row at a symbolic position (1 residue, symbolic gap counts 0..3)'])

# =========================================================================== writers (C15, C06)
def _writer_shapes(tier):
    out = []
    base = [(2, 1, (1, 2)), (2, 3, (2, 3)), (2, 60, (1, 3)), (2, 61, (2, 2)), (3, 2, (1, 2, 3)), (2, 2, (3, 1)), (3, 2, (7, 1, 2))]   # incl. first name the longest
    if tier != 'quick':
        base += [(2, 59, (1, 1)), (2, 120, (1, 2)), (2, 121, (3, 1)), (3, 60, (1, 2, 1)), (2, 5, (10, 3))]
    for n, w, nl in base:
        for fmt in (0, 1, 2):
            for prot in ((0, 1) if fmt == 2 else (0,)):
                uw = max(70, w + 10, 30)
                d = dict(KV_N=n, KV_W=w, KV_NAMELENS='{' + ','.join(map(str, nl)) + '}', KV_FMT=fmt, KV_PROT=prot, KV_LINELEN=256)
                if w >= 16:
                    d['KV_FREE'] = 4
                out.append(dict(name='n%d_w%d_names%s_fmt%d_prot%d' % (n, w, ''.join(map(str, nl)), fmt, prot), defs=d, unwind=uw))
    # (a shape that writes MSF to a file with an 83-character name, so that the description line outgrows a shrunk line buffer and is
    #  re-allocated, was built for seed C15_c: -DKV_LONGOUT -DKV_LINELEN=100; it exhausts 40 GB and is not registered; that path is decided
    #  by C15.msf_header_fit below, where snprintf is its contract instead of a text-producing stub)
    return out
WRITER_SRCS = ['lib/src/msa_alloc.c', 'lib/src/msa_op.c', 'lib/src/msa_misc.c', 'lib/src/alphabet.c', 'lib/src/tlmisc.c']
Q(id='C15.writers', props=['C15', 'C06', 'C01'], cls='B', harness='c15_writers.c', entry='h_c15_write', shapes=_writer_shapes,
  mode='wrap', timeout=1200, loops_files=['msa_alloc.shrink.loops', 'msa_io.shrink.loops', 'msa_io.lines.shrink.loops', 'msa_io.linelen.shrink.loops'], shrink=True,
  defs=['-DKV_CAP=2', '-DKV_SEQCAP=2', '-DKV_LCAP=24', '-DKV_OUTMAX=1400'], object_bits=10,
  unwindset={'kv_puts.0': 402, 'sb_puts.0': 402, 'expect_str.0': 302, 'kv_streq.0': 82, 'strnlen.0': 258, 'kv_fprintf.0': 142, 'tlfilename.4': 100, 'strlen.0': 100},
  funcs=['kalign_write_msa', 'parse_format_argument', 'write_msa_fasta', 'write_msa_clu', 'write_msa_msf', 'alloc_line_buffer', 'resize_line_buffer', 'free_line_buffer',
         'sort_out_lines', 'GCGchecksum', 'GCGMultchecksum'],
  srcs=WRITER_SRCS, native_srcs=['lib/src/tldevel.c', 'lib/src/esl_stopwatch.c'] + WRITER_SRCS,
  trusted=[TRUST_MSG, 'stdio capture stubs (contracts/stubs_io.h): fprintf/snprintf for exactly the formats the writers use, fopen/fclose/time/localtime_r/strftime trivial',
           'qsort insertion-sort stub', 'realloc byte-copy stub', 'R3 capacity shrink (line table 1024 -> 24 lines: no growth of the line table occurs in these shapes, resize_line_buffer is not exercised; record growth 512 -> 2; minimal line buffer 256 -> 100 bytes in the *_longout shape only)'],
  assumptions=[A_NOFAIL, A_WRAP, 'bounded: 2-3 rows, widths 1,3,60,61 (thorough 59,120,121), concrete names of 1-3 (10) characters over [A-Za-z0-9_.|-], row bytes symbolic from {-,A,c,N} (wide shapes: only the last 4 columns symbolic); output to stdout (outfile == NULL); the re-allocation path of an MSF header line longer than the line buffer is not exercised here but in C15.msf_header_fit (snprintf by contract)'])
def _msf_fit_shapes(tier):
    # (over_desc, over_name): length the complete text needs, relative to the buffer the writer offers at its first attempt
    # (negative: fits; 0: one byte short because of the terminator; positive: longer)
    base = [(-100, -100), (0, -100), (40, -100), (-100, 0), (40, 40)]
    if tier != 'quick':
        base += [(1, 1), (-1, -1), (300, -100), (0, 0)]
    out = []
    for od, on in base:
        for prot in (0, 1):
            out.append(dict(name='desc%s_name%s_prot%d' % (('m%d' % -od) if od < 0 else ('p%d' % od), ('m%d' % -on) if on < 0 else ('p%d' % on), prot),
                            defs=dict(KV_N=2, KV_W=2, KV_PROT=prot, KV_OVER_DESC='(%d)' % od, KV_OVER_NAME='(%d)' % on), unwind=70))
    # the table of output lines grows on the way (capacity 4 instead of 24: three resize_line_buffer calls for the 12 lines of the file)
    for od, on in ([(-100, -100), (40, 40)] if tier == 'quick' else [(-100, -100), (40, 40), (0, -100), (-100, 0)]):
        out.append(dict(name='desc%s_name%s_prot0_grow' % (('m%d' % -od) if od < 0 else ('p%d' % od), ('m%d' % -on) if on < 0 else ('p%d' % on)),
                        defs=dict(KV_N=2, KV_W=2, KV_PROT=0, KV_OVER_DESC='(%d)' % od, KV_OVER_NAME='(%d)' % on, KV_LCAP_GROW=4), unwind=70))
    return out
Q(id='C15.msf_header_fit', props=['C15', 'C05'], cls='B', harness='c15_msf_fit.c', entry='h_c15_msf_fit', shapes=_msf_fit_shapes,
  mode='wrap', timeout=900, loops_files=['msa_alloc.shrink.loops', 'msa_io.shrink.loops', 'msa_io.lines.shrink.loops'], shrink=True,
  defs=['-DKV_CAP=2', '-DKV_SEQCAP=2', '-DKV_LCAP=24', '-DKV_OUTMAX=1400'], object_bits=10,
  unwindset={'kv_streq.0': 82, 'strnlen.0': 258, 'kv_fit_snprintf.0': 402, 'strlen.0': 100},
  funcs=['write_msa_msf', 'alloc_line_buffer', 'resize_line_buffer', 'free_line_buffer', 'sort_out_lines', 'GCGchecksum', 'GCGMultchecksum'],
  srcs=WRITER_SRCS, native_srcs=['lib/src/tldevel.c', 'lib/src/esl_stopwatch.c'] + WRITER_SRCS,
  trusted=[TRUST_MSG, 'snprintf replaced by its CONTRACT (writes at most `size` bytes into a buffer that must hold them, returns the length the complete text needs; that length is chosen by the harness relative to the offered buffer, so the file-name / row-name length is abstracted, not bounded)',
           'fprintf no-op, fopen/fclose/time/localtime_r/strftime trivial', 'qsort insertion-sort stub', 'realloc: fresh block, contents carried over only for blocks <= 48 bytes (over-approximation for line buffers)',
           'R3 capacity shrink (line table 1024 -> 24 lines, record growth 512 -> 2)'],
  assumptions=[A_NOFAIL, A_WRAP, 'bounded in the row count (2 rows of 2 columns); complete in the length of the description / Name: text up to the case split fits / exactly one byte short / longer (5 quick, 9 thorough combinations, both molecule types)'])
Q(id='C15.GCGchecksum', props=['C15'], cls='P', harness='c15_gcg.c', entry='h_c15_gcg',
  mode='dfcc', enforce=['GCGchecksum'], loop_contracts=True, loops_files=['msa_misc.gcg.loops'], unwind=4, timeout=600, replayable=False,
  funcs=['GCGchecksum'], trusted=[TRUST_MSG, 'toupper: CBMC C-locale model (-D__NO_CTYPE)'],
  assumptions=[A_NOFAIL, 'row length 0..100000 (KV_MAXROW; object size, not the loop, bounds it)',
               'data invariant: row bytes of a finalised alignment are ASCII (>= 0), instantiated at the read site by an injected ghost assume'])
Q(id='C15.sort_out_lines', props=['C15', 'C06'], cls='P', harness='c15_msf_fit.c', entry='h_c15_sort_out_lines', defs=['-DKV_ENTRY_SORTLINES', '-DKV_CAP=2', '-DKV_SEQCAP=2', '-DKV_LCAP=24', '-DKV_OUTMAX=1400'],
  mode='wrap', unwind=4, timeout=300, funcs=['sort_out_lines'], loops_files=['msa_alloc.shrink.loops', 'msa_io.shrink.loops', 'msa_io.lines.shrink.loops'], shrink=True,
  srcs=WRITER_SRCS, native_srcs=['lib/src/tldevel.c', 'lib/src/esl_stopwatch.c'] + WRITER_SRCS,
  trusted=[TRUST_MSG], assumptions=[A_WRAP, 'both keys of both lines range over the full int domain (loop-free harness: complete, not bounded)'])
Q(id='C15.GCGMultchecksum', props=['C15'], cls='P', harness='c15_gcg.c', entry='h_c15_gcg_mult', defs=['-DKV_N=3'],
  mode='dfcc', replace=['GCGchecksum'], unwind=6, timeout=600, replayable=False,
  funcs=['GCGMultchecksum'], trusted=[TRUST_MSG, 'GCGchecksum replaced by its contract (proved in C15.GCGchecksum); its precondition (row buffer of alnlen + 1 bytes) is asserted at the call'],
  assumptions=[A_NOFAIL, '3 rows (row loop unwound), row length symbolic 0..1000'])
PROPS['C15'] = dict(
    level='other',
    level_text=('the three writers are run on symbolic finalised alignments with stdio captured; the captured bytes are checked against the format rules of the property (60-column wrapping, header lines, blocks with every sequence once, in order) '
                'and the structured MSF header values (declared length, per-row and total GCG checksums, molecule type) against an independent checksum and the kind of sequence; '
                'C15.msf_header_fit: with snprintf replaced by its contract, every MSF header line that does not fit its line buffer (long file name, long row names) is re-allocated and printed again complete, inside its buffer, and no line is lost or re-ordered when the table of output lines grows; '
                'proved: sort_out_lines (the comparator that puts the buffered Clustal / MSF lines into file order) returns the sign of the lexicographic comparison of (block, row) over the full int domain; GCGchecksum stays in 0..9999 without overflow for a row of any length (loop contract)'),
    level_note='bounded (2-3 rows, widths around the 60-column boundary); stdio replaced by capture stubs; file output path (fopen) not exercised; capacity-shrunk line table',
    technique=T_CB + ' (harness-enforced; goto-instrument --dfcc with a loop contract for GCGchecksum), bounded unwinding, stdio capture stubs / snprintf by contract; native replay',
    explanation=EXPL_COMMON)

PROPS['C06'] = dict(
    level='other',
    level_text=('bounded contract checks that compose to the round trip: C15.writers shows each writer emits, byte for byte, the text the format rules prescribe for a symbolic alignment; '
                'C05.read_fasta, C06.readers (Clustal) and C06.read_msf show the reader returns, for block-structured text of that shape, one record per row with the same name, residues and every gap count'),
    level_note=('bounded: 2-3 rows, 2-6 columns; reader texts use shortened header lines and small blocks (the readers do not depend on the block constant); read_msf is decided under a case split on the stored name length (R3 identity substitution, one-letter names); '
                'the composition writer -> text -> reader and the cross-format pairs are meta-arguments over the common abstract rows'),
    technique=T_CB + ' (harness-enforced), bounded unwinding, capacity-shrunk copies; native replay',
    explanation=EXPL_COMMON)

def _reader_shapes(tier):
    out = []
    # measured: Clustal shapes up to 3 columns finish in ~90 s; 4 columns and every MSF shape (longer header -> larger unwinding
    # bound -> phantom iterations) exhaust 12 GB and are not registered: the MSF reader is NOT decided.
    if tier == 'quick':
        shapes = [(2, 2, 2, 1), (2, 3, 2, 1), (2, 3, 3, 1)]
    else:
        shapes = [(2, 2, 2, 1), (2, 3, 2, 1), (2, 3, 3, 1), (3, 2, 2, 1)]
    for n, w, blk, fmt in shapes:
        out.append(dict(name='n%d_w%d_block%d_fmt%d' % (n, w, blk, fmt), defs=dict(KV_N=n, KV_W=w, KV_BLOCK=blk, KV_FMT=fmt),
                        unwind=(18 if fmt == 1 else 12 + n + ((w + blk - 1) // blk) * (n + 2))))
    # blocks separated by a line of blanks instead of an empty line
    out.append(dict(name='n2_w3_block2_fmt1_wssep', defs=dict(KV_N=2, KV_W=3, KV_BLOCK=2, KV_FMT=1, KV_WSSEP=1), unwind=18))
    # the file starts with an empty line
    out.append(dict(name='n2_w2_block2_fmt1_leadblank', defs=dict(KV_N=2, KV_W=2, KV_BLOCK=2, KV_FMT=1, KV_LEADBLANK=1), unwind=18))
    return out
Q(id='C06.readers', props=['C06', 'C04', 'C05'], cls='B', harness='c06_readers.c', entry='h_c06_readers', shapes=_reader_shapes,
  mode='wrap', timeout=1200, loops_files=['msa_alloc.shrink.loops', 'msa_io.shrink.loops'], shrink=True, leak_check=True,
  defs=['-DKV_CAP=4', '-DKV_SEQCAP=2'], object_bits=11, unwindset={'strnlen.0': 258},
  funcs=['read_clu', 'read_msf', 'null_terminate_sequences', 'resize_msa_seq', 'alloc_msa', 'kalign_free_msa'],
  srcs=['lib/src/msa_alloc.c', 'lib/src/msa_op.c', 'lib/src/msa_misc.c', 'lib/src/alphabet.c', 'lib/src/tlmisc.c'], native_srcs=READER_NATIVE,
  trusted=[TRUST_MSG, 'strstr/strnlen loop stubs', 'realloc byte-copy stub', 'isalpha/ispunct/isspace: CBMC C-locale models', 'R3 capacity shrink (records 512 -> 4, residues 512 -> 2)'],
  assumptions=[A_NOFAIL, A_WRAP, 'bounded: 2-3 rows, 2-6 columns in blocks of 2-3 (the readers do not depend on the block constant 60), row bytes from {-,A,c,N}; header lines shortened to the keywords the readers look for'])

def _msf_reader_shapes(tier):
    out = []
    shapes = [(2, 2, 2, 0), (2, 3, 3, 0), (2, 2, 2, 1), (2, 2, 2, 2)] if tier == 'quick' else [(2, 2, 2, 0), (2, 3, 2, 0), (2, 3, 3, 0), (2, 2, 2, 1), (2, 2, 2, 2), (2, 3, 3, 2)]
    shapes = shapes + [(2, 3, 2, 3), (2, 2, 2, 4)]          # 3: well-formed, blocks separated by a line of blanks; 4: the file starts with an empty line
    for n, w, blk, hostile in shapes:
        nlines = 12 + n + ((w + blk - 1) // blk) * (n + 2 + (3 if hostile == 1 else 0))
        out.append(dict(name='n%d_w%d_block%d_fmt2%s' % (n, w, blk, {0: '', 1: '_extrarows', 2: '_lenfirst', 3: '_wssep', 4: '_leadblank'}[hostile]),
                        defs=dict(dict(KV_N=n, KV_W=w, KV_BLOCK=blk, KV_FMT=2, KV_NAMELEN=1, KV_HOSTILE=(0 if hostile >= 3 else hostile), KV_CAP=4), **({'KV_WSSEP': 1} if hostile == 3 else ({'KV_LEADBLANK': 1} if hostile == 4 else {}))), unwind=max(18, nlines)))
    return out
Q(id='C06.read_msf', props=['C06', 'C04', 'C05'], cls='B', harness='c06_readers.c', entry='h_c06_readers', shapes=_msf_reader_shapes,
  mode='wrap', timeout=1500, loops_files=['msa_alloc.shrink.loops', 'msa_io.shrink.loops', 'msa_io.msf.loops'], shrink=True, leak_check=True,
  defs=['-DKV_SEQCAP=2'], object_bits=11, unwindset={'strnlen.0': 258},
  funcs=['read_msf', 'null_terminate_sequences', 'resize_msa_seq', 'alloc_msa', 'kalign_free_msa'],
  srcs=['lib/src/msa_alloc.c', 'lib/src/msa_op.c', 'lib/src/msa_misc.c', 'lib/src/alphabet.c', 'lib/src/tlmisc.c'], native_srcs=READER_NATIVE,
  trusted=[TRUST_MSG, 'strstr/strnlen loop stubs', 'realloc byte-copy stub', 'isalpha/ispunct/isspace: CBMC C-locale models', 'R3 capacity shrink (records 512 -> 4, residues 512 -> 2)',
           'R3 identity substitution in read_msf: the skip strnlen(stored name) is asserted equal to the name length of the shape and replaced by that constant (contracts/msa_io.msf.loops)'],
  assumptions=[A_NOFAIL, A_WRAP, 'bounded: 2 rows, 2-3 columns in blocks of 2-3, row bytes from {-,A,c,N}; one-letter names; header lines shortened to the keywords the reader looks for'])
def _sniff_shapes(tier):
    # names / residue lines of 7-9 symbols: long enough to spell a keyword of another format
    return [dict(name='fasta_k9_r9', defs=dict(KV_TEXT=0, KV_K=9, KV_RW=9)), dict(name='clustal_n7', defs=dict(KV_TEXT=1, KV_NW=7)), dict(name='msf_n7', defs=dict(KV_TEXT=2, KV_NW=7))] + \
           ([] if tier == 'quick' else [dict(name='fasta_k27', defs=dict(KV_TEXT=0, KV_K=27)), dict(name='msf_n9', defs=dict(KV_TEXT=2, KV_NW=9)), dict(name='clustal_n2', defs=dict(KV_TEXT=1, KV_NW=2))])
Q(id='C04.detect_alignment_format', props=['C04', 'C05', 'C06'], cls='B', harness='c04_sniff.c', entry='h_c04_sniff', shapes=_sniff_shapes,
  mode='wrap', unwind=67, timeout=900, funcs=['detect_alignment_format'],
  srcs=['lib/src/msa_alloc.c', 'lib/src/msa_op.c', 'lib/src/msa_misc.c', 'lib/src/alphabet.c', 'lib/src/tlmisc.c'], native_srcs=READER_NATIVE,
  trusted=[TRUST_MSG, 'strstr: textbook loop stub (contracts/stubs_str.h)'],
  assumptions=[A_WRAP, 'bounded: two FASTA records whose headers carry 9 (thorough 27) arbitrary bytes after the > ; the header lines of kalign\'s own Clustal / MSF writers followed by two block lines with symbolic names of 7 (thorough 2-9) characters and residues; FASTA residue lines of 9 letters'])
def _read_file_shapes(tier):
    sh = [(3, 3), (5, 1)] if tier == 'quick' else [(3, 3), (5, 1), (7, 1), (2, 5)]
    out = [dict(name='nl%d_lw%d' % (nl, lw), defs=dict(KV_NL=nl, KV_LW=lw), unwind=max(nl, lw) + 4) for nl, lw in sh]
    out.append(dict(name='nl2_lw3_noeol', defs=dict(KV_NL=2, KV_LW=3, KV_NOEOL=1), unwind=7))     # file that does not end in a newline
    return out
Q(id='C05.read_file_stdin', props=['C05', 'C04'], cls='B', harness='c05_read_file.c', entry='h_c05_read_file', shapes=_read_file_shapes,
  mode='wrap', timeout=900, loops_files=['msa_io.inbuf.shrink.loops'], shrink=True, leak_check=True, defs=['-DKV_INCAP=2'], object_bits=10,
  funcs=['read_file_stdin', 'alloc_in_buffer', 'resize_in_buffer', 'free_in_buffer'],
  srcs=['lib/src/msa_alloc.c', 'lib/src/msa_op.c', 'lib/src/msa_misc.c', 'lib/src/alphabet.c', 'lib/src/tlmisc.c'], native_srcs=READER_NATIVE,
  trusted=[TRUST_MSG, 'fopen / getline / fclose: harness stubs delivering the lines of an in-memory text (each line ends in a newline)', 'realloc byte-copy stub', 'iscntrl: CBMC C-locale model',
           'R3 capacity shrink: line table 1024 -> 2 entries (grows 2 -> 3 -> 4 -> 6)'],
  assumptions=[A_NOFAIL, A_WRAP, 'bounded: 2-7 lines of 1-5 bytes, every byte symbolic over the full range; files that end in a newline and one that does not'])
def _longname_shapes(tier):
    # names of NAMECAP-1, NAMECAP and NAMECAP+2 characters against a name buffer of NAMECAP = 4 bytes
    return [dict(name='clu_name%d_cap4' % n, defs=dict(KV_N=2, KV_W=2, KV_BLOCK=2, KV_FMT=1, KV_LONGNAME=n, KV_NAMECAP=4), unwind=18) for n in ((4, 6) if tier == 'quick' else (3, 4, 5, 6))]
Q(id='C05.read_clu.longnames', props=['C05', 'C06', 'C04'], cls='B', harness='c06_readers.c', entry='h_c06_readers', shapes=_longname_shapes,
  mode='wrap', timeout=1200, loops_files=['msa_alloc.shrink.loops', 'msa_io.shrink.loops', 'msa_struct.namecap.loops'], shrink=True, leak_check=True,
  defs=['-DKV_CAP=4', '-DKV_SEQCAP=2'], object_bits=11, unwindset={'strnlen.0': 258},
  funcs=['read_clu', 'null_terminate_sequences', 'resize_msa_seq', 'alloc_msa', 'kalign_free_msa'],
  srcs=['lib/src/msa_alloc.c', 'lib/src/msa_op.c', 'lib/src/msa_misc.c', 'lib/src/alphabet.c', 'lib/src/tlmisc.c'], native_srcs=READER_NATIVE,
  trusted=[TRUST_MSG, 'strstr/strnlen loop stubs', 'realloc byte-copy stub', 'isalpha/ispunct/isspace: CBMC C-locale models',
           'R3 capacity shrink (records 512 -> 4, residues 512 -> 2, name buffer MSA_NAME_LEN 256 -> 4 bytes)'],
  assumptions=[A_NOFAIL, A_WRAP, 'bounded: Clustal text with row names of 3-6 characters against a 4-byte name buffer; the name may be cut, the residues and gaps of the row must be those that follow the name'])
def _longname_msf_shapes(tier):
    # the skip of a block line is the full row name (KV_NAMELEN = its length in the line), whatever was stored of it
    return [dict(name='msf_name%d_cap4' % n, defs=dict(KV_N=2, KV_W=2, KV_BLOCK=2, KV_FMT=2, KV_LONGNAME=n, KV_NAMECAP=4, KV_NAMELEN=n, KV_HOSTILE=0), unwind=26) for n in ((6,) if tier == 'quick' else (3, 4, 6))]
Q(id='C05.read_msf.longnames', props=['C05', 'C06', 'C04'], cls='B', harness='c06_readers.c', entry='h_c06_readers', shapes=_longname_msf_shapes,
  mode='wrap', timeout=1500, loops_files=['msa_alloc.shrink.loops', 'msa_io.shrink.loops', 'msa_io.msf.loops', 'msa_struct.namecap.loops'], shrink=True, leak_check=True,
  defs=['-DKV_CAP=4', '-DKV_SEQCAP=2'], object_bits=11, unwindset={'strnlen.0': 258},
  funcs=['read_msf', 'null_terminate_sequences', 'resize_msa_seq', 'alloc_msa', 'kalign_free_msa'],
  srcs=['lib/src/msa_alloc.c', 'lib/src/msa_op.c', 'lib/src/msa_misc.c', 'lib/src/alphabet.c', 'lib/src/tlmisc.c'], native_srcs=READER_NATIVE,
  trusted=[TRUST_MSG, 'strstr/strnlen loop stubs', 'realloc byte-copy stub', 'isalpha/ispunct/isspace: CBMC C-locale models',
           'R3 capacity shrink (records 512 -> 4, residues 512 -> 2, name buffer MSA_NAME_LEN 256 -> 4 bytes)', 'R3 identity substitution of the block-line skip (contracts/msa_io.msf.loops)'],
  assumptions=[A_NOFAIL, A_WRAP, 'bounded: MSF text with row names of 3-6 characters against a 4-byte name buffer; the name may be cut, the residues and gaps of the row must be those that follow the name'])
# =========================================================================== C12 upgma
def _upgma_shapes(tier):
    s = [(3, 2), (4, 2), (4, 3)] if tier == 'quick' else [(3, 2), (4, 2), (4, 3), (5, 2), (5, 3), (5, 4)]
    return [dict(name='n%d_k%d' % (n, k), defs=dict(KV_N=n, KV_K=k), unwind=n + 3) for n, k in s]
KMEANS_NATIVE = ['lib/src/tldevel.c', 'lib/src/tlmisc.c', 'lib/src/tlrng.c', 'lib/src/sequence_distance.c', 'lib/src/bpm.c', 'lib/src/euclidean_dist.c', 'lib/src/pick_anchor.c',
                 'lib/src/task.c', 'lib/src/msa_alloc.c', 'lib/src/esl_stopwatch.c', 'lib/src/alphabet.c']
Q(id='C12.upgma', props=['C12'], cls='B', harness='c12_upgma.c', entry='h_c12_upgma', shapes=_upgma_shapes,
  mode='wrap', timeout=1200, funcs=['upgma', 'alloc_node'], native_srcs=KMEANS_NATIVE, cbmc_flags=['--depth', '200000'],
  trusted=[TRUST_MSG], assumptions=[A_NOFAIL, A_WRAP, A_FLOAT, 'bounded: 3-4 (thorough 5) leaves, 2-3 copies; distances symbolic floats under the premise of C12 as delivered by d_estimation (copy-copy = length term <= 1, copy-other >= 1.0001 and equal for all copies)'])
PROPS['C12'] = dict(
    level='other',
    level_text=('chain of component checks: bpm_block / bpm equal the edit-distance reference (C11.bpm_block, so identical sequences are at distance 0 and non-contained ones at >= 1); '
                'upgma (exact tree for < 100 sequences) is checked bounded to put the copies of a sequence into a subtree of their own whenever the distance matrix satisfies the premise; '
                'identical groups then align without gaps and move as a block (C07 / C10 component checks)'),
    level_note='bounded (3-5 leaves); the d_estimation length term and the induction over multiplicity are meta-arguments; the diagonal alignment of identical groups (C08) is not under a finished check',
    technique=T_CB + ' (harness-enforced), bounded unwinding with bit-precise floats; native replay',
    explanation=EXPL_COMMON)

# =========================================================================== C02 frames
for _k, _kn in ((0, 'seqseq'), (1, 'seqprofile'), (2, 'profileprofile')):
    for _w, _fn in ((0, 'foward'), (1, 'backward'), (2, 'meetup')):
        _f = 'aln_%s_%s' % (_kn, _fn)
        Q(id='C02.frame.%s' % _f, props=['C02', 'C07'], cls='P', harness='c02_frames.c', entry='h_c02_frames', defs=['-DKV_WHICH=%d' % _w, '-DKV_KERNEL=%d' % _k],
          mode='dfcc', enforce=[_f], unwind=26, timeout=900, replayable=False, funcs=[_f], trusted=[TRUST_MSG],
          unwindset={'h_c02_frames.%d' % _i: 400 for _i in range(0, 12)},
          assumptions=['frame (assigns clause) enforced on the real body for a 2x3 problem with symbolic residues / fixed profiles; the set of store instructions does not depend on the problem size',
                       'fabsf: CBMC library model'])
PROPS['C02'] = dict(
    level='other',
    level_text=('what a contract can say about concurrency here: the write frame of every function that runs as an OpenMP task in the parallel Hirschberg step is proved (forward: only m->f; backward: only m->b; '
                'meet-in-the-middle: only its three out-parameters) for all three kernels, and static facts pin the task / taskwait order (children before the merge, both halves before the meetup, four k-means restarts before the fixed-order reduction), '
                'the absence of thread-id dependent code, of critical/atomic sections, of random numbers and of mutable static storage; per-merge aln_mem is private'),
    level_note=('the schedule quantifier itself is outside contract-based verification (CBMC ignores OpenMP): "race-free tasks with disjoint write frames joined by taskwait compute a schedule-independent result" is a meta-argument; '
                'frames of do_align / split2 / bpm_block are not under DFCC; a change that keeps frames and pragmas but alters results by thread count some other way is not detected'),
    technique=T_CB + ' (assigns clauses enforced by goto-instrument --dfcc) + static facts on OpenMP pragma order',
    explanation=EXPL_COMMON,
    assumptions=['meta-argument from disjoint frames + taskwait order to schedule independence'])

NOT_YET['C08'] = ('not applicable within this technique on this code: "identical inputs align without gaps" is a statement about the result of the whole recursive Hirschberg driver '
                  '(aln_runner / aln_continue mutual recursion with symbolic meeting points did not finish symbolic execution for a 2x3 problem, DESIGN 2.2), and no per-function contract implies it; '
                  'the component obligations that stand behind it are decided under C07 (kernels equal the recurrence, backward mirrors forward), C10/C01 (merge step) and C12 (upgma groups copies)')
# =========================================================================== C08 diagonal step
def _diag_shapes(tier):
    out = []
    for typ, tn in ((0, 'dna'), (1, 'internal'), (2, 'rna'), (3, 'protein'), (4, 'divergent')):
        if tier == 'quick':
            nmax = 4 if typ < 3 else 3
        else:
            nmax = 6 if typ < 3 else 5      # measured: rna n8 > 1200 s, dna n6 64 s, protein n5 250 s
        for n in range(1, nmax + 1):
            for ts in (1, 0):
                for te in (1, 0):
                    out.append(dict(name='%s_n%d_ts%d_te%d' % (tn, n, ts, te), defs=dict(KV_N=n, KV_TS=ts, KV_TE=te, KV_TYPE=typ)))
    return out
Q(id='C08.seqseq.diag_step', props=['C08'], cls='B', harness='c08_diag.c', entry='h_c08_diag', shapes=_diag_shapes,
  mode='wrap', unwind=26, timeout=1200, funcs=['aln_seqseq_foward', 'aln_seqseq_backward', 'aln_seqseq_meetup', 'aln_param_init'],
  trusted=[TRUST_MSG, 'fabsf: CBMC library model'],
  assumptions=[A_FLOAT, A_WRAP, A_NOFAIL, 'bounded: diagonal blocks of 1..4 nucleotide / 1..3 protein (thorough 1..6 / 1..5) rows, touching / not touching either end of the sequences, all five alignment types with the library\'s own matrices and default penalties, every residue code symbolic for the nucleotide types, 7 of the 23 codes (A C G W B Z X) for the protein types',
               'the kernels are called with the arguments aln_runner_serial passes (contract C07.aln_runner_serial); the induction over the recursion (aln_continue contract) is a meta-argument'],
  native_srcs=['lib/src/tldevel.c'])
PROPS['C08'] = dict(
    level='other',
    level_text=('bounded contract check of the recursion step: on a diagonal block of identical operands with unit boundary states the real forward / backward kernels and the real meetup return the transition aligned -> aligned on the diagonal, '
                'for every residue content (all five alignment types, the library\'s own matrices); the recursion invariant is carried by the proved contracts of aln_runner_serial and aln_continue'),
    level_note=('bounded: blocks of up to 4 (thorough 6) rows, so identical sequences longer than that are NOT decided; sequence-sequence kernel only (two copies); groups of copies (profile kernels), '
                'the k-means fallback and the induction over the recursion / guide tree are meta-arguments or undecided'),
    technique=T_CB + ' (harness-enforced), bounded complete unwinding, bit-precise floats; native replay',
    explanation=EXPL_COMMON)
def _prof_diag_shapes(tier):
    out = []
    nmax = 2 if tier == 'quick' else 3
    for n in range((2 if tier == 'quick' else 1), nmax + 1):     # ~200 s per shape: the quick tier keeps the two 2-row blocks
        for ts, te in ((1, 1), (0, 0)) if tier == 'quick' else ((1, 1), (1, 0), (0, 1), (0, 0)):
            S = 0 if ts else 1
            E = S + n
            ln = E + (0 if te else 1)
            for ps in ((0,) if tier == 'quick' else (0, 2, 3)):      # 3: a residue code with a negative self-score (X); ~230 s per shape, thorough only
                out.append(dict(name='n%d_ts%d_te%d_p%d' % (n, ts, te, ps), defs=dict(KV_ROWS=ln, KV_LB=ln, KV_S=S, KV_E=E, KV_PSET=ps)))
    return out
def _prof_diag_shapes_pp(tier):
    # profile-profile: measured under a 14-way parallel thorough run, every shape with 3 or more profile columns on each side
    # except the ones kept here exceeded 1500 s; they are not registered
    sh = _prof_diag_shapes(tier)
    if tier == 'quick':
        return [x for x in sh if 'ts1_te1' in x['name']]       # the ts0_te0 block (4 profile columns) takes several hundred seconds
    keep = ('n1_', 'n2_ts1_te1_', 'n3_ts1_te1_p0', 'n3_ts1_te1_p3')
    return [x for x in sh if x['name'].startswith(keep) and not (x['name'].startswith('n1_') and ('ts0_te0' in x['name']) and not x['name'].endswith('p0'))]
for (_ka, _kb), _nm in (((2, 1), 'seqprofile'), ((2, 2), 'profileprofile')):
    Q(id='C08.%s.diag_step' % _nm, props=['C08'], cls='B', harness='c07_profiles.c', entry='h_c08_profiles_diag', shapes=(_prof_diag_shapes if _nm == 'seqprofile' else _prof_diag_shapes_pp),
      defs=['-DKV_ENTRY_DIAG', '-DKV_KA=%d' % _ka, '-DKV_KB=%d' % _kb],
      mode='wrap', unwind=8, timeout=1500, funcs=['aln_%s_foward' % _nm, 'aln_%s_backward' % _nm, 'aln_%s_meetup' % _nm, 'make_profile_n', 'update_n', 'set_gap_penalties_n'],
      srcs=['lib/src/aln_mem.c'], native_srcs=['lib/src/tldevel.c', 'lib/src/aln_mem.c'], trusted=[TRUST_MSG, 'fabsf: CBMC library model'],
      assumptions=[A_FLOAT, A_WRAP, A_NOFAIL, 'bounded: a group of 2 copies against the bare sequence / against a group of 2 copies of the same string, diagonal blocks of 1-2 (thorough 3) rows, 3 residue codes, the concrete parameter sets of the C07 kernel queries',
                   'profiles are built by the real make_profile_n / update_n (diagonal path) / set_gap_penalties_n'])
Q(id='C12.d_estimation', props=['C12'], cls='B', harness='c12_distance.c', entry='h_c12_distance', defs=['-DKV_N=2'],
  mode='wrap', unwind=6, timeout=600, funcs=['d_estimation', 'calc_distance'],
  native_srcs=['lib/src/tldevel.c'],
  trusted=[TRUST_MSG, 'bpm_block replaced by a stub with its contract (0..1024, symmetric per pair, 0 on the diagonal; C11)', 'alloc_2D_array_size_float (tldevel.c galloc) replaced by a plain allocator'],
  assumptions=[A_FLOAT, A_WRAP, A_NOFAIL, 'bounded: instance of 2 sequences, lengths a symbolic choice among 16 representative values (1 .. 200000, around 1000 / 10000 / 20000), edit distances 0..1024 symbolic; pair mode (< 100 sequences) only'])
Q(id='C16.tree_lifecycle', props=['C16', 'C05'], cls='B', harness='c16_tree_lifecycle.c', entry='h_c16_tree_lifecycle',
  shapes=lambda tier: [dict(name='n%d' % n, defs=dict(KV_N=n), unwind=n + 6) for n in ((3, 4) if tier == 'quick' else (2, 3, 4, 5))],
  mode='wrap', timeout=900, leak_check=True, object_bits=10,
  funcs=['build_tree_kmeans', 'bisecting_kmeans', 'upgma', 'label_internal', 'create_tasks', 'alloc_node', 'alloc_tasks', 'free_tasks'],
  srcs=['lib/src/task.c', 'lib/src/tlrng.c', 'lib/src/euclidean_dist.c'], native_srcs=[x for x in KMEANS_NATIVE if not x.endswith(('bisectingKmeans.c', 'sequence_distance.c', 'pick_anchor.c', 'bpm.c'))],
  trusted=[TRUST_MSG, 'pick_anchor and d_estimation replaced by harness stubs that hand out freshly allocated arrays of the documented shapes (2 anchors; numseq rows x 8 columns; n x n in pair mode)',
           'gfree of tldevel.c replaced by a plain 2-D free', 'esl_stopwatch_*: no-op stubs'],
  assumptions=[A_NOFAIL, A_WRAP, A_FLOAT, 'bounded: 3-4 (thorough 2-5) sequences, i.e. the exact (upgma) branch of bisecting_kmeans; concrete distances; leak = CBMC --memory-leak-check after free_tasks'])
Q(id='C11.calc_distance', props=['C11', 'C12'], cls='P', harness='c11_calc_distance.c', entry='h_c11_calc_distance',
  mode='wrap', unwind=4, timeout=300, funcs=['calc_distance'], native_srcs=['lib/src/tldevel.c', 'lib/src/msa_alloc.c', 'lib/src/alphabet.c', 'lib/src/tlmisc.c'],
  trusted=[TRUST_MSG, 'bpm_block replaced by a recording stub with its contract (value in 0..1024; C11.bpm_block)'], assumptions=[A_WRAP])

S(id='cli_penalties_parsed_as_float', props=['C09'], kind='order', files=['src/run_kalign.c'], function='main',
  sequence=[r'case OPT_GPO:\s*param->gpo = atof\(optarg\);\s*break;', r'case OPT_GPE:\s*param->gpe = atof\(optarg\);\s*break;', r'case OPT_TGPE:\s*param->tgpe = atof\(optarg\);\s*break;'],
  text='the option loop of main() (getopt_long, outside the contract queries) stores --gpo / --gpe / --tgpe with atof, each in its own field: fractional penalties such as the documented 5.5 reach run_kalign unchanged')
S(id='cli_penalty_writers', props=['C09'], kind='sites_equal', pattern=r'param->\s*(gpo|gpe|tgpe)\s*=[^=]', files=['src/*.c'],
  expected=['src/parameters.c:init_param', 'src/run_kalign.c:main'],
  text='the three penalty fields of the CLI parameters are written only by init_param (-1 = not given, proved in C09.run_kalign) and by the three option cases of main()')
S(id='omp_distance_cells_private', props=['C02'], kind='absent_in_region', files=['lib/src/sequence_distance.c'], function='d_estimation', keep_pp=True,
  after=r'#pragma omp parallel for[^\n]*collapse\(2\)', pattern=r'dm\s*\[(?!\s*i\s*\]\s*\[\s*j\s*\])',
  text='distance matrix (omp parallel for, collapse(2), static): the loop body touches no cell of dm but its own dm[i][j] -- one writer per cell and no read of a cell written by another iteration')
S(id='omp_distance_loop_present', props=['C02'], kind='order', files=['lib/src/sequence_distance.c'], function='d_estimation', keep_pp=True,
  sequence=[r'#pragma omp parallel for shared\(dm, s\) private\(i, j\) collapse\(2\) schedule\(static\)', r'for\(i = 0; i < numseq;i\+\+\)', r'for\(j = 0;j < num_samples;j\+\+\)', r'dm\[i\]\[j\] = calc_distance\(s1,s2,l1,l2\)'],
  text='distance matrix: the parallel loop is the collapse(2) static loop over (sequence, anchor) whose body assigns dm[i][j] from calc_distance of the two sequences')

# (a query for kalign_read_input through stubbed fopen/getline was built and dropped: it did not finish in 15 min even on
#  concrete inputs -- phantom re-allocation paths; harness/c04_read_input.c is kept for reference, seeded change C04_a is NOT caught)

def _profile_shapes(tier):
    out = []
    def add(ka, kb, r, lb, sb, eb, ps, ins):
        out.append(dict(name='ka%d_kb%d_rows%d_lb%d_sb%d_eb%d_p%d_in%d' % (ka, kb, r, lb, sb, eb, ps, ins),
                        defs=dict(KV_KA=ka, KV_KB=kb, KV_ROWS=r, KV_LB=lb, KV_SB=sb, KV_EB=eb, KV_PSET=ps, KV_IN=ins)))
    if tier == 'quick':
        # ~100 s each: one rectangle per start/end-of-b case for the seq-profile kernel, two for profile-profile
        for sb, eb, ins in ((0, 2, 0), (1, 2, 1)):
            add(2, 1, 2, 2, sb, eb, 0, ins)
        add(2, 2, 2, 2, 0, 2, 2, 2)
        return out
    for ka, kb in [(2, 1), (3, 1), (2, 2)]:
        for lb in ((2,) if (ka, kb) == (2, 2) else (2, 3)):      # (2,2) with 3 columns: > 900 s, not registered
            for sb in (0, 1):
                for eb in (lb - 1, lb):
                    if eb - sb < 1:
                        continue
                    for ps, ins in ((0, 0), (2, 1), (0, 2)):
                        add(ka, kb, 2, lb, sb, eb, ps, ins)
    return out
def _profile_mirror_shapes(tier):
    sh = _profile_shapes(tier)
    # measured: the mirror query finishes only for a group of 2 against a single sequence (others > 1200 s): not registered
    return sh[1:2] if tier == 'quick' else [x for x in sh if x['name'].startswith('ka2_kb1_')]
Q(id='C07.profiles.fwd_groups', props=['C07', 'C08'], cls='B', harness='c07_profiles.c', entry='h_c07_profiles', shapes=_profile_shapes,
  mode='wrap', unwind=8, timeout=900, funcs=['aln_seqprofile_foward', 'aln_profileprofile_foward', 'make_profile_n', 'update_n', 'set_gap_penalties_n'],
  srcs=['lib/src/aln_mem.c'], native_srcs=['lib/src/tldevel.c', 'lib/src/aln_mem.c'], trusted=[TRUST_MSG],
  assumptions=[A_FLOAT, A_KFLOAT, A_WRAP, A_NOFAIL, 'bounded: groups of 2 (thorough 3) identical copies against a single sequence or a group of 2, rectangles 1-2 rows x 2 (3) columns, 3 residue codes; profiles are built by the real make_profile_n / update_n (diagonal path) / set_gap_penalties_n'])
Q(id='C17.sort_by_both', props=['C17'], cls='P', harness='c17_comparators.c', entry='h_c17_comparators',
  mode='wrap', unwind=8, timeout=600, funcs=['sort_by_both', 'sort_by_name', 'sort_by_chksum'],
  native_srcs=['lib/src/tldevel.c'], trusted=[TRUST_MSG, 'strncmp: CBMC library model'],
  assumptions=[A_WRAP, 'names: all NUL-terminated strings of up to 4 bytes (full byte domain, so proper prefixes included); checksums: full int domain'])

Q(id='C07.profiles.bwd_mirror', props=['C07'], cls='B', harness='c07_profiles.c', entry='h_c07_profiles_mirror', shapes=_profile_mirror_shapes, defs=['-DKV_ENTRY_MIRROR'],
  mode='wrap', unwind=8, timeout=1200, funcs=['aln_seqprofile_backward', 'aln_profileprofile_backward', 'aln_seqprofile_foward', 'aln_profileprofile_foward', 'make_profile_n', 'update_n', 'set_gap_penalties_n'],
  srcs=['lib/src/aln_mem.c'], native_srcs=['lib/src/tldevel.c', 'lib/src/aln_mem.c'], trusted=[TRUST_MSG],
  assumptions=[A_FLOAT, A_KFLOAT, A_WRAP, A_NOFAIL, 'bounded: same shapes as C07.profiles.fwd_groups'])

def _meetup_shapes(tier):
    out = []
    for lb in ([2] if tier == 'quick' else [2, 3]):
        for sb in (0, 1):
            for eb in (lb - 1, lb):
                if eb - sb < 1:
                    continue
                if lb == 3 and sb == 0 and eb == 3:
                    continue      # the full 3-column block of the profile-profile meetup does not finish in 15 min
                for ps in ([2] if tier == 'quick' else [0, 2]):
                    out.append(dict(name='lb%d_sb%d_eb%d_p%d' % (lb, sb, eb, ps), defs=dict(KV_ROWS=2, KV_LB=lb, KV_SB=sb, KV_EB=eb, KV_PSET=ps)))
    return out
A_MEET = 'bounded: blocks of 1-2 (thorough 3) columns, every start/end-of-b case, state values -FLT_MAX or whole numbers in [-30,30] (symbolic), concrete penalties'
Q(id='C07.seqseq.meetup', props=['C07'], cls='B', harness='c07_seqseq.c', entry='h_c07_meetup', shapes=_meetup_shapes, defs=['-DKV_ENTRY_MEETUP'],
  mode='wrap', unwind=8, timeout=900, funcs=['aln_seqseq_meetup'], trusted=[TRUST_MSG, 'fabsf: CBMC library model'],
  assumptions=[A_FLOAT, A_WRAP, A_MEET], native_srcs=['lib/src/tldevel.c'])
def _meetup_shapes_prof(tier):
    sh = _meetup_shapes(tier)
    return sh[:2] if tier == 'quick' else sh
for _ka, _kb, _nm in ((2, 1, 'seqprofile'), (2, 2, 'profileprofile')):
    Q(id='C07.%s.meetup' % _nm, props=['C07'], cls='B', harness='c07_profiles.c', entry='h_c07_profiles_meetup', shapes=_meetup_shapes_prof,
      defs=['-DKV_ENTRY_MEETUP', '-DKV_KA=%d' % _ka, '-DKV_KB=%d' % _kb],
      mode='wrap', unwind=8, timeout=900, funcs=['aln_%s_meetup' % _nm, 'make_profile_n', 'update_n', 'set_gap_penalties_n'],
      srcs=['lib/src/aln_mem.c'], native_srcs=['lib/src/tldevel.c', 'lib/src/aln_mem.c'], trusted=[TRUST_MSG, 'fabsf: CBMC library model'],
      assumptions=[A_FLOAT, A_WRAP, A_NOFAIL, A_MEET, 'profiles of groups of identical copies built by the real profile code'])
Q(id='C07.aln_continue', props=['C07'], cls='P', harness='c07_continue.c', entry='h_c07_continue',
  mode='dfcc', replace=['aln_runner', 'aln_runner_serial'], unwind=14, timeout=900, replayable=False,
  funcs=['aln_continue'], trusted=[TRUST_MSG, 'aln_runner / aln_runner_serial replaced at the call sites by the contract of contracts/aln_controller.contracts.h (arguments compared with the prescribed split)'],
  assumptions=[A_NOFAIL, 'block coordinates symbolic with starta < mid < enda < 10 (size of the harness path buffer) and startb <= meet <= endb < 1000; boundary states symbolic over the full float domain'])
Q(id='C07.aln_runner_serial', props=['C07', 'C02'], cls='P', harness='c07_runner.c', entry='h_c07_runner',
  mode='dfcc', replace=['aln_seqseq_foward', 'aln_seqseq_backward', 'aln_seqseq_meetup', 'aln_profileprofile_foward', 'aln_profileprofile_backward', 'aln_profileprofile_meetup',
                        'aln_seqprofile_foward', 'aln_seqprofile_backward', 'aln_seqprofile_meetup', 'aln_continue'],
  unwind=4, timeout=600, replayable=False, funcs=['aln_runner_serial'],
  trusted=[TRUST_MSG, 'kernels and aln_continue replaced at the call sites by order/argument contracts (contracts/aln_runner.contracts.h); each has its own queries'],
  assumptions=[A_NOFAIL, 'block coordinates symbolic in 0..100000, boundary states over the full float domain, all three operand kinds; full-alignment mode (ALN_MODE_FULL)'])
Q(id='C01.kalign_run.protocol', props=['C01', 'C04', 'C09', 'C16', 'C03'], cls='P', harness='c01_protocol.c', entry='h_c01_protocol',
  mode='dfcc', replace=['kalign_essential_input_check', 'dealign_msa', 'msa_sort_len_name', 'convert_msa_to_internal', 'alloc_tasks', 'build_tree_kmeans', 'aln_param_init',
                        'create_msa_tree', 'finalise_alignment', 'msa_sort_rank', 'aln_param_free', 'free_tasks'],
  unwind=4, timeout=600, replayable=False, funcs=['kalign_run'],
  trusted=[TRUST_MSG, 'esl_stopwatch_*: no-op stubs', 'all twelve callees replaced at the call sites by the step contracts of contracts/aln_wrap.contracts.h; each has its own queries'],
  assumptions=['status / kind of sequence / thread count / type / penalties (full float domain) / failing step symbolic; OpenMP call omp_set_num_threads is outside the non-OpenMP verification build (static fact omp_set_num_threads_each_call)'])
Q(id='C16.kalign_api.protocol', props=['C16', 'C01', 'C09'], cls='P', harness='c16_kalign_api.c', entry='h_c16_kalign_api',
  mode='dfcc', replace=['kalign_run', 'kalign_msa_to_arr', 'kalign_free_msa'],
  unwind=4, timeout=600, replayable=False, funcs=['kalign'],
  trusted=[TRUST_MSG, 'kalign_run, kalign_msa_to_arr, kalign_free_msa replaced at the call sites by step / argument contracts, kalign_arr_to_msa by a stub with the same contract (harness/c16_kalign_api.c); each has its own queries'],
  assumptions=['argument values, thread count, type, penalties (full float domain) and the failing step symbolic'])
Q(id='C02.tree_merge_order', props=['C02', 'C10', 'C16'], cls='B', harness='c02_tree_order.c', entry='h_c02_tree_order',
  shapes=lambda tier: [dict(name='tree%d' % k, defs=dict(KV_TREE=k)) for k in (0, 1, 2, 3)],
  mode='dfcc', replace=['do_align'], loops_files=['aln_run.tree.loops'], unwind=8, timeout=600, replayable=False,
  funcs=['create_msa_tree', 'recursive_aln'],
  trusted=[TRUST_MSG, 'do_align replaced at the call site by a contract over ghost state (harness/c02_tree_order.c); alloc_aln_mem / free_aln_mem / sort_tasks: counting harness stubs',
           'OpenMP pragmas are not seen by the verifier (serial semantics); their order is the static fact omp_tree_merge_order'],
  assumptions=['bounded: the four guide-tree shapes over 3 and 4 sequences (concrete), thread count symbolic; the recursion itself is the real one'])
Q(id='C15.write_dispatch', props=['C15', 'C06', 'C05'], cls='P', harness='c15_write_dispatch.c', entry='h_c15_write_dispatch',
  shapes=lambda tier: [dict(name=w, defs=dict(KV_WORD=k)) for k, w in enumerate(('msf', 'clu', 'fasta', 'fa', 'none'))],
  mode='dfcc', replace=['write_msa_fasta', 'write_msa_msf', 'write_msa_clu'], unwind=8, timeout=600, replayable=False,
  funcs=['kalign_write_msa', 'parse_format_argument'],
  srcs=['lib/src/msa_alloc.c', 'lib/src/msa_op.c', 'lib/src/msa_misc.c', 'lib/src/alphabet.c', 'lib/src/tlmisc.c'],
  trusted=[TRUST_MSG, 'the three writers replaced at the call sites by which-writer / argument contracts (each is checked by C15.writers)', 'strstr: textbook loop stub'],
  assumptions=['alignment status and writer failure symbolic; one query per format word (msf, clu, fasta, fa, none): the five words are the whole domain the CLI documents'])
Q(id='C04.kalign_read_input.protocol', props=['C04', 'C05'], cls='P', harness='c04_read_protocol.c', entry='h_c04_read_protocol',
  mode='dfcc', replace=['read_file_stdin', 'detect_alignment_format', 'read_fasta', 'read_msf', 'read_clu', 'detect_alphabet', 'detect_aligned', 'set_sip_nsip', 'free_in_buffer', 'merge_msa', 'kalign_free_msa'],
  unwind=4, timeout=600, replayable=False, funcs=['kalign_read_input', 'check_for_sequences'],
  trusted=[TRUST_MSG, 'esl_stopwatch_* / my_file_exists: trivial stubs', 'eleven callees replaced at the call sites by the step contracts of contracts/msa_io.read_input.contracts.h'],
  assumptions=['files of 0..2 lines with symbolic lengths 0..1000 (the "was anything read" test looks at the first line only); format result symbolic; with / without an msa from earlier inputs'])

# =========================================================================== refreshed level texts (state at the end of the build)
PROPS['C01'].update(
    level_text=('proved: the kalign_run protocol (every step once, in order, with the caller\'s arguments; C01.kalign_run.protocol), convert_msa_to_internal, sort_by_rank. '
                'Bounded contract checks of the real merge step (do_align / add_gap_info_to_path_n / mirror_path_n / make_seq / update_gaps) for every small shape with symbolic gap vectors and any DP result, '
                'of the real kalign_run on small inputs with the tree/DP stages replaced by contract stubs (rows, names, order, row length, de-gapped row == input bytes, only gap characters added), and of the three writers (C15.writers)'),
    level_note=('bounded parts: group sizes 1-2(3), widths 1-4, 2-4 sequences of 0-3 residues; DP abstracted by assumed contract ALN-1 (monotone alignment without adjacent opposite gaps); float profile routines, qsort, stopwatch and diagnostics are stubs; '
                'induction over the guide tree is a meta-argument; sum-over-array invariants could not be closed by loop contracts (DESIGN 2.2)'))
PROPS['C04'].update(
    level_text=('proved: the kalign_read_input protocol (slurp, "anything read", sniff, the reader of the sniffed format, kind of sequence, alignment status, member lists, merge into the msa of earlier inputs; a file that contributes nothing leaves that msa alone) and the kalign_run protocol (de-align before anything else). '
                'Bounded contract checks of read_file_stdin (lines, control characters), detect_alignment_format (FASTA whatever the record names say; kalign\'s own Clustal / MSF headers), read_fasta / read_clu / read_msf (records = letters of the sequence lines, gap symbols only counted), '
                'merge_msa, detect_aligned / dealign_msa, detect_alphabet (non-letters take no part)'),
    level_note=('bounded reader shapes (2-3 records, a few columns, shortened header lines); the two-presentation relational statement follows by composition (equal reader output => same kalign_run input), not machine-checked; stdin differs from a file only in fopen'))
PROPS['C05'].update(
    level_text=('memory-safety and defined-code obligations (bounds, pointer, overflow, shift, division checks of CBMC, memory-leak check where the harness ends with the destructor) are discharged together with the functional contracts: '
                'proved for create_alphabet, convert_msa_to_internal (any length <= 1000), compare_pair, run_kalign exit-status mapping, calc_distance, the two protocol functions; '
                'bounded for read_file_stdin (every byte value), detect_alignment_format, the three readers incl. malformed MSF text, merge_msa, the constructors, the merge step and kalign_run incl. its lifecycle with empty sequences'),
    level_note=('bounded reader / writer shapes; allocation failure paths not explored (malloc assumed to succeed); getopt loop, AVX2 kernel and termination are outside; data invariant "residues are ASCII letters" assumed at read sites of convert_msa_to_internal'))
PROPS['C07'].update(
    level_text=('proved: aln_continue (the Hirschberg split of every transition code equals the partition rule of the three-state model; recursive calls replaced by a contract), aln_runner_serial (forward, backward, meetup, split once each, on the block it was given), frames and result ranges of the meetups. '
                'Bounded component contracts on small rectangles with symbolic residues and the concrete parameter sets: seq-seq forward == independent full-matrix recurrence (bit for bit), backward == forward on reversed operands (all three kernels), '
                'profile kernels on groups of identical copies == the recurrence scaled by KA*KB, the three meetups == the meet-in-the-middle rule'),
    level_note='bounded kernels (1-3 rows x 2-4 columns, groups of 2-3 copies); optimality end to end is the composition of these contracts (meta-argument); update_n on non-diagonal paths not covered')
PROPS['C08'].update(
    level_note=('bounded: blocks of up to 4 nucleotide / 3 protein rows (thorough 6 / 5), so identical sequences longer than that are NOT decided; protein residues from 7 of the 23 codes (incl. X, B, Z); profile kernels: 2 copies against 1 or 2, blocks of 2 (3) rows, 3 residue codes; '
                'the k-means fallback, upgma on all-equal distances and the induction over the recursion / guide tree are meta-arguments or undecided'))
PROPS['C09'].update(
    level_note=('trusted: no-op diagnostic printers, textbook strstr stub, recording stubs for the library entry points called by run_kalign; malloc assumed to succeed; frame (assigns) not checked because goto-instrument --dfcc does not finish on 23x23 heap tables; '
                'main() from the option loop to the library calls is checked bounded (C09.main: two options and two positional files per command line, getopt / atof / atoi stubbed); two static facts pin the three penalty options (stored with atof, each in its own field)'))
PROPS['C12'].update(
    level_text=('chain of component checks: bpm_block / bpm equal the edit-distance reference (C11, so identical sequences are at distance 0 and non-contained ones at >= 1); calc_distance returns that value (proved); '
                'the real d_estimation (pair mode) adds a length term in [0,1] and is symmetric (C12.d_estimation, the premise of the next step, verbatim); '
                'upgma (exact tree for < 100 sequences) is checked bounded to put the copies of a sequence into a subtree of their own under that premise; identical groups then align without gaps (C08 step) and move as a block (C10)'),
    level_note='bounded (3-5 leaves; d_estimation on 2 sequences with lengths from 16 representative values); induction over multiplicity and the composition are meta-arguments')
PROPS['C16'].update(
    level_text=('static facts: the complete list of objects with static storage in lib/src and src is the expected constant tables, no random numbers are drawn by library code reachable from the API, the OpenMP thread count is set on every call; '
                'proved: kalign_run creates and releases each per-call object once (protocol); bounded contract checks with CBMC memory-leak detection on every constructor/destructor pair, on the readers, and on the whole kalign_run lifecycle of a reader-shaped msa with empty sequences '
                '(everything allocated is freed, every field later read is initialised: an uninitialised field is nondeterministic heap content to the verifier and fails the post-condition)'))
PROPS['C11'].update(
    level_note=('bpm_256 (AVX2 intrinsics) is not verified; bpm_block only bounded: one 64-bit block incl. the block boundary (63, 64 symbols, text up to 66) -- patterns that need two or more blocks (carry between blocks) '
                'exhaust 30 GB and are NOT covered by a finished query; text symbols < 13 assumed at the read site (data invariant from convert_msa_to_internal)'))
