"""registry.py -- every query (contract x harness x shapes) and static fact, by property."""

TRUST_MSG = 'error()/warning()/log_message() of tldevel.c replaced by no-op stubs (variadic vfprintf printers)'
A_FLOAT = 'machine floats are IEEE-754 binary32/64 as modelled bit-precisely by CBMC (round-to-nearest-even)'
A_NOFAIL = 'malloc assumed not to fail in this query (--no-malloc-may-fail); allocation-failure paths are covered by the C05/C16 queries'
A_WRAP = 'contract enforced by a harness wrapper (assume requires; call the real body; assert the K_POST_* ensures text); the assigns frame is NOT checked in this query (goto-instrument --dfcc could not finish on it)'

QUERIES = []
HOOK_COMMITS = []
NOT_YET = {}
NOTES = ('Contract-based deductive verification of the real kalign sources with CBMC; see DESIGN.md. '
         'Obligation classes: (P) proved unbounded / full-domain, (B) bounded stand-in, (S) static fact; never mixed in counts.')
STATIC_FACTS = []
PROPS = {}


def Q(**kw):
    QUERIES.append(kw)


def by_id():
    return {q['id']: q for q in QUERIES}


# =========================================================================== C09
PROPS['C09'] = dict(
    level='proof',
    level_text=('aln_param_init, set_aln_type, run_kalign and init_param are checked against post-conditions taken from the property statement and README '
                'for ALL argument values (full float domain incl. NaN/inf, every type constant, every biotype value, an arbitrary matrix cell); '
                'all loops are bounded by constants of the code (23x23, 5x5, word length) and completely unwound with passing unwinding assertions, '
                'so every obligation is discharged for the whole input domain'),
    level_note=('trusted: no-op diagnostic printers, textbook strstr stub, recording stubs for the library entry points called by run_kalign; '
                'malloc assumed to succeed; frame (assigns) not checked because goto-instrument --dfcc does not finish on 23x23 heap tables; '
                'getopt loop of main() not under contract'),
    technique='CBMC function contracts (wrapper-enforced post-conditions), complete unwinding of constant loops, SAT (cadical); native replay of counterexamples',
    explanation='',
    assumptions=[A_FLOAT,
                 'option parsing in main() (getopt_long_only, atof, atoi) is not under contract: the values stored into struct parameters by the getopt loop are taken as "what the caller selected"',
                 'universal generalisation over the ghost matrix cell (kv_gi,kv_gj) and ghost word index is the only step outside the verifier'],
)
Q(id='C09.aln_param_init', props=['C09'], cls='P', harness='c09_aln_param_init.c', entry='h_c09_aln_param_init',
  mode='wrap', unwind=24, timeout=600, solver=['--sat-solver', 'cadical'], funcs=['aln_param_init', 'set_subm_gaps_DNA', 'set_subm_gaps_DNA_internal', 'set_subm_gaps_RNA',
                                               'set_subm_gaps_CorBLOSUM66_13plus', 'set_subm_gaps_gon250', 'aln_param_free'],
  trusted=[TRUST_MSG], assumptions=[A_NOFAIL, A_WRAP],
  native_srcs=['lib/src/tldevel.c'])
Q(id='C09.set_aln_type', props=['C09'], cls='P', harness='c09_run_kalign.c', entry='h_c09_set_aln_type',
  mode='wrap', unwind=16, timeout=300, funcs=['set_aln_type'], defs=['-DKV_ENTRY_set_aln_type'],
  trusted=[TRUST_MSG, 'strstr: textbook stub (contracts/stubs_str.h); strcpy: CBMC library body'], assumptions=[A_WRAP],
  native_srcs=['lib/src/tldevel.c', 'lib/src/tlmisc.c'])
Q(id='C09.run_kalign', props=['C09', 'C05'], cls='P', harness='c09_run_kalign.c', entry='h_c09_run_kalign',
  mode='wrap', unwind=5, timeout=300, funcs=['run_kalign', 'init_param', 'free_parameters'],
  trusted=[TRUST_MSG, 'kalign_read_input/kalign_run/kalign_write_msa/kalign_free_msa replaced by recording stubs in this query (their own contracts are checked in other queries)'],
  assumptions=[A_WRAP, A_NOFAIL],
  native_srcs=['lib/src/tldevel.c', 'lib/src/tlmisc.c'])

# =========================================================================== alphabets (C14, C05)
Q(id='C14.create_alphabet', props=['C14', 'C05'], cls='P', harness='c14_alphabet.c', entry='h_c14_alphabet',
  mode='dfcc', enforce=['create_alphabet'], unwind=130, timeout=600,
  funcs=['create_alphabet', 'create_default_protein', 'create_protein_BZX', 'create_default_DNA', 'create_reduced_protein',
         'create_reduced_protein2', 'merge_codes', 'merge_multiple', 'clean_and_set_to_extern'],
  trusted=[TRUST_MSG], assumptions=[A_NOFAIL], native_srcs=['lib/src/tldevel.c'])
PROPS['C14'] = dict(level='other', level_text='x', level_note='x', technique='x')
Q(id='C05.convert_msa_to_internal', props=['C05', 'C14'], cls='P', harness='c05_convert.c', entry='h_c05_convert',
  mode='dfcc', loop_contracts=True, loops_files=['msa_op.convert.loops'], enforce=['convert_msa_to_internal'], replace=['create_alphabet'], unwind=130, timeout=900,
  defs=['-DKV_CONTRACT_CONVERT2'],
  srcs=[], funcs=['convert_msa_to_internal'], replayable=False,
  trusted=[TRUST_MSG, 'create_alphabet replaced by its contract (proved in C14.create_alphabet)'],
  assumptions=[A_NOFAIL, 'data invariant: residues stored in seq->seq[] are ASCII letters (established by the readers, see C04/C05 reader queries); instantiated for the ghost residue only',
               'sequence loop unwound for 2 sequences (each iteration independent); residue loop closed by invariant for any length'])
PROPS['C05'] = dict(level='other', level_text='x', level_note='x', technique='x')

# =========================================================================== C13 detect_alphabet
A_LOG = 'LOG-axioms: libm log() assumed within 1e-9 of the mathematical value for the 5 constants detect_alphabet evaluates (contracts/stubs_log.h)'
A_REPS = ('histogram restricted to 13 representative positions (3 letters shared by both models, U/u, 3 protein-only letters, 2 letters in neither model, 3 non-letter characters); '
          'each count symbolic in 0..4095 (quick) / 0..1e6 (thorough); the other 115 entries are 0')
for pm in (1, 2):
    Q(id='C13.detect_alphabet.premise%d' % pm, props=['C13', 'C04'] + (['C14'] if pm == 1 else []), cls='B', harness='c13_detect_alphabet.c', entry='h_c13_detect',
      mode='wrap', unwind=130, timeout=2400, defs=['-DKV_PREMISE=%d' % pm, '-DKV_MAXCOUNT=4095'], funcs=['detect_alphabet'],
      trusted=[TRUST_MSG], assumptions=[A_LOG, A_REPS, A_FLOAT, A_WRAP], native_srcs=['lib/src/tldevel.c', 'lib/src/msa_alloc.c', 'lib/src/alphabet.c'])
PROPS['C13'] = dict(level='other', level_text='x', level_note='x', technique='x')

# =========================================================================== C17
Q(id='C17.compare_pair', props=['C17'], cls='P', harness='c17_compare_pair.c', entry='h_c17_compare_pair',
  mode='dfcc', enforce=['compare_pair'], loop_contracts=True, loops_files=['msa_cmp.loops'], unwind=12, timeout=900, replayable=False,
  funcs=['compare_pair'], trusted=[TRUST_MSG, 'isalpha: CBMC C-locale model (-D__NO_CTYPE)'],
  assumptions=[A_NOFAIL, 'row widths 1..1000 (KV_MAXW); counters below 2^60',
               'premise of C17 instantiated by a ghost assume between loops 2 and 3 of compare_pair: each row has the same number of residues in both alignments'])
PROPS['C17'] = dict(level='other', level_text='x', level_note='x', technique='x')
Q(id='C17.msa_compare.bound', props=['C17'], cls='P', harness='c17_msa_compare.c', entry='h_c17_bound', defs=['-DKV_STUB_CMP_CALLEES', '-DKV_N=3'],
  mode='dfcc', replace=['compare_pair'], loops_files=['msa_cmp.loops'], unwind=130, timeout=900, replayable=False,
  funcs=['kalign_msa_compare'],
  trusted=[TRUST_MSG, 'compare_pair replaced by its contract (proved in C17.compare_pair)',
           'finalise_alignment / kalign_check_msa / kalign_sort_msa stubbed as no-ops in this query (alignments already FINAL; row matching by name is checked in C17.exact and C17.sort_by_both)'],
  assumptions=[A_NOFAIL, '3 rows (pair loops unwound), row width symbolic 1..1000',
               'FLOAT-mono: for integers 0 <= a <= b, b > 0 the IEEE expression (float)(100.0*a/b) lies in [0,100] (checked bit-precisely only on the small shapes of C17.exact)'])
def _c17_shapes(tier):
    out = []
    ws = [(2, 2, 2), (2, 3, 3), (2, 2, 3), (3, 2, 2)] if tier == 'quick' else [(2, 2, 2), (2, 3, 3), (2, 2, 3), (2, 3, 4), (2, 4, 4), (3, 2, 2), (3, 3, 3), (3, 2, 3)]
    for n, wr, wt in ws:
        out.append(dict(name='n%d_wr%d_wt%d' % (n, wr, wt), defs=dict(KV_N=n, KV_WR=wr, KV_WT=wt)))
    return out
Q(id='C17.exact', props=['C17'], cls='B', harness='c17_msa_compare.c', entry='h_c17_exact', shapes=_c17_shapes,
  mode='wrap', unwind=12, timeout=1200, funcs=['kalign_msa_compare', 'compare_pair', 'kalign_check_msa', 'kalign_sort_msa', 'sort_by_both', 'sort_by_name', 'sort_by_chksum', 'GCGchecksum'],
  srcs=['lib/src/msa_check.c', 'lib/src/msa_op.c', 'lib/src/msa_alloc.c', 'lib/src/alphabet.c'],
  native_srcs=['lib/src/tldevel.c', 'lib/src/msa_check.c', 'lib/src/msa_op.c', 'lib/src/msa_alloc.c', 'lib/src/alphabet.c'],
  trusted=[TRUST_MSG, 'qsort: insertion-sort stub calling the real comparator (contracts/stubs_qsort.h)', 'isalpha/toupper/strncmp/strnlen: CBMC library models'],
  assumptions=[A_NOFAIL, A_WRAP, A_FLOAT, 'bounded: 2-3 rows, widths 2-4, symbols {A,c,-,.}; alignments passed in FINAL state (finalise_alignment is covered by C01)'])

# =========================================================================== C11
Q(id='C11.bpm', props=['C11'], cls='P', harness='c11_bpm.c', entry='h_c11_bpm',
  mode='dfcc', enforce=['bpm'], loop_contracts=True, loops_files=['bpm.bpm.loops'], unwind=70, timeout=3600, replayable=False,
  solver=['--sat-solver', 'cadical'], mem_gb=24,
  funcs=['bpm'], trusted=[TRUST_MSG],
  assumptions=['text length 0..100000 (KV_MAXN, only bounds the size of the is_fresh object; the loop is closed by its invariant)',
               'data invariant instance: each text symbol read is < 13 (internal codes of the distance alphabets, proved at convert_msa_to_internal: s[j] < L, L <= 13)',
               'Sellers column recurrence (contracts/bpm.contracts.h) is taken as the definition of "minimum over all substrings of the edit distance"'])
PROPS['C11'] = dict(level='other', level_text='x', level_note='x', technique='x')

# =========================================================================== C01 / C10 weave
def _lens_options(n, p):
    """member lengths of a completed group of n sequences and width p (a group of one is the bare sequence);
    only combinations for which a group without all-gap column exists (sum of lengths >= width)"""
    import itertools
    if n == 1:
        return [(p,)]
    return [t for t in itertools.product(range(1, p + 1), repeat=n) if sum(t) >= p and max(t) <= p]


def _weave_shapes(tier):
    out = []
    if tier == 'quick':
        # sum 6 is the smallest size in which two separate insertions fall into one existing gap run (GA M GA M against a member "-A")
        pls, groups, maxsum = [1, 2, 3, 4], [(1, 1), (1, 2), (2, 1), (2, 2)], 6
    else:
        pls, groups, maxsum = [1, 2, 3, 4], [(1, 1), (1, 2), (2, 1), (2, 2), (3, 1), (1, 3)], 7
    for na, nb in groups:
        for pa in pls:
            for pb in pls:
                if pa + pb > maxsum:
                    continue
                if na + nb >= 4 and pa + pb > (5 if tier == 'quick' else 6):
                    continue
                for la in _lens_options(na, pa):
                    for lb in _lens_options(nb, pb):
                        for L in range(max(pa, pb), pa + pb):
                            lens = '{' + ','.join(str(x) for x in la + lb) + '}'
                            out.append(dict(name='na%d_nb%d_pla%d_plb%d_lens%s_L%d' % (na, nb, pa, pb, ''.join(str(x) for x in la + lb), L),
                                            defs=dict(KV_NA=na, KV_NB=nb, KV_PLA=pa, KV_PLB=pb, KV_L=L, KV_LENS=lens)))
    return out
Q(id='C01.weave', props=['C01', 'C10', 'C05'], cls='B', harness='c01_weave.c', entry='h_c01_weave', shapes=_weave_shapes,
  mode='wrap', unwind=12, timeout=900, loops_files=['weave.loops', 'aln_run.loops'], shrink=True,
  funcs=['do_align', 'add_gap_info_to_path_n', 'mirror_path_n', 'make_seq', 'update_gaps', 'init_alnmem', 'alloc_aln_mem', 'resize_aln_mem'],
  srcs=['lib/src/weave_alignment.c', 'lib/src/aln_mem.c'],
  native_srcs=['lib/src/tldevel.c', 'lib/src/weave_alignment.c', 'lib/src/aln_mem.c'],
  trusted=[TRUST_MSG, 'aln_runner replaced by its contract as a stub: writes ANY monotone partial matching into m->path (what the DP components of C07 establish)',
           'make_profile_n / set_gap_penalties_n / update_n replaced by frame-only stubs (they touch only profile buffers)'],
  assumptions=[A_NOFAIL, A_WRAP, 'bounded: groups of 1-2 (thorough 1-3) members, group widths 1-3 (thorough 1-4); member lengths and the merged width L are enumerated as concrete shapes (case split), gap vectors and DP result symbolic; identity substitution of path[0] by the case constant KV_L in three malloc sizes (contracts/weave.loops, aln_run.loops)'])
PROPS['C01'] = dict(level='other', level_text='x', level_note='x', technique='x')
PROPS['C10'] = dict(level='other', level_text='x', level_note='x', technique='x')

def _run_shapes(tier):
    import itertools
    out = []
    lens_sets = [(2, 1), (1, 1), (2, 0, 1), (0, 2, 2), (1, 0), (0, 0, 1), (3, 1)] if tier == 'quick' else \
        [t for n in (2, 3) for t in itertools.product(range(0, 4), repeat=n)]
    for lens in lens_sets:
        nz = [x for x in lens if x > 0]
        ws = range(max(nz), max(nz) + 3) if len(nz) >= 2 else [1]
        for w in ws:
            out.append(dict(name='lens%s_w%d' % (''.join(map(str, lens)), w),
                            defs=dict(KV_N=len(lens), KV_LENS='{' + ','.join(map(str, lens)) + '}', KV_W=w)))
    return out
Q(id='C01.kalign_run', props=['C01', 'C04', 'C03'], cls='B', harness='c01_run.c', entry='h_c01_run', shapes=_run_shapes,
  mode='wrap', unwind=14, timeout=600, loops_files=['msa_op.finalise.loops'], shrink=True,
  funcs=['kalign_run', 'kalign_essential_input_check', 'dealign_msa', 'msa_sort_len_name', 'sort_by_len_name', 'finalise_alignment',
         'make_linear_sequence', 'msa_sort_rank', 'sort_by_rank', 'kalign_msa_to_arr'],
  srcs=['lib/src/msa_check.c', 'lib/src/msa_op.c', 'lib/src/msa_sort.c', 'lib/src/msa_alloc.c', 'lib/src/alphabet.c', 'lib/src/tlrng.c'],
  native_srcs=['lib/src/tldevel.c', 'lib/src/msa_check.c', 'lib/src/msa_op.c', 'lib/src/msa_sort.c', 'lib/src/msa_alloc.c', 'lib/src/alphabet.c', 'lib/src/tlrng.c'],
  trusted=[TRUST_MSG, 'qsort: insertion-sort stub calling the real comparator', 'esl_stopwatch_*: no-op stubs',
           'build_tree_kmeans / create_msa_tree replaced by contract stubs (require: input de-aligned, >= 2 non-empty sequences; ensure: a well-formed alignment)',
           'convert_msa_to_internal, aln_param_init/free, alloc_tasks/free_tasks: frame-only stubs (each has its own contract query)'],
  assumptions=[A_NOFAIL, A_WRAP, 'bounded: 2-3 sequences of 0-3 residues, gap counts 0-2, widths case-split; data invariant of detect_aligned instantiated: status UNALIGNED only if all gap counts are 0'])
