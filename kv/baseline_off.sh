#!/bin/sh
# builds /repo's working tree with the verification guard OFF (plain cmake build, no -DKALIGN_VERIF) in a scratch dir and runs the pinned suite
set -e
B=$(mktemp -d /tmp/kv_baseline_XXXXXX)
trap 'rm -rf "$B"' EXIT
cmake -G Ninja -S /repo -B "$B" -DCMAKE_BUILD_TYPE=RelWithDebInfo >/dev/null
cmake --build "$B" -j16 >/dev/null
ctest --test-dir "$B" -j8 --timeout 900 < /dev/null   # the CLI tests read standard input when it is not a terminal
