#!/bin/sh
# confirm_seed.sh <seed-id> <worktree> : confirm a sub-agent's seeded change in its scratch worktree
#   (1) with the change: builds, all ctest tests pass, demo FAILS   (2) without: demo PASSES
# then copies patch.diff + demo into /verif/seeded/<seed-id>/ and writes confirm.log
ID=$1; WT=$2
OUT=/verif/seeded/$ID
mkdir -p $OUT
LOG=$OUT/confirm.log
: > $LOG
cd $WT || exit 1
git checkout -q -- lib src 2>/dev/null
git apply demo/patch.diff || { echo "patch does not apply" >> $LOG; exit 1; }
cmake -G Ninja -B _build -DCMAKE_BUILD_TYPE=RelWithDebInfo >/dev/null 2>&1
cmake --build _build -j8 >/dev/null 2>&1 || { echo "BUILD FAILED with change" >> $LOG; exit 1; }
echo "build with change: ok" >> $LOG
sh demo/run.sh _build >/dev/null 2>&1; echo "demo with change: rc=$?" >> $LOG
ctest --test-dir _build -j8 --timeout 900 2>&1 | tail -3 >> $LOG
git apply -R demo/patch.diff
cmake --build _build -j8 >/dev/null 2>&1
sh demo/run.sh _build >/dev/null 2>&1; echo "demo without change: rc=$?" >> $LOG
cp demo/patch.diff $OUT/patch.diff
rm -rf $OUT/demo; mkdir -p $OUT/demo
for f in demo/*; do case "$f" in demo/patch.diff) ;; *) [ -f "$f" ] && [ $(stat -c %s "$f") -lt 200000 ] && cp "$f" $OUT/demo/ ;; esac; done
cat $LOG
