#!/bin/sh
# test_seed.sh <patch.diff> <property> [extra kv.py args...] : run a check against a scratch copy of /repo with the patch applied
# (never touches /repo itself; safe while other checks are running)
P=$1; PROP=$2; shift 2
D=$(mktemp -d /tmp/kv_seed_XXXXXX)
trap 'rm -rf "$D"' EXIT
mkdir -p $D/r && cd /repo && git archive HEAD | tar -x -C $D/r && cd $D/r && git init -q . 2>/dev/null && git apply "$P" || { echo "patch does not apply"; exit 3; }
cd /verif && KV_REPO=$D/r python3 kv/kv.py check $PROP "$@" 2>&1 | tail -3 | cut -c1-220
