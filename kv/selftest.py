#!/usr/bin/env python3
"""setup: nothing to build (python3 stdlib + pre-installed cbmc); verify the tools and the injector are usable."""
import subprocess, sys, os
HERE = os.path.dirname(os.path.abspath(__file__))
sys.path.insert(0, HERE)
for t in (['cbmc', '--version'], ['goto-cc', '--version'], ['goto-instrument', '--version'], ['gcc', '--version']):
    subprocess.run(t, stdout=subprocess.DEVNULL, stderr=subprocess.DEVNULL, check=True)
import inject, registry, static_facts
src = "int f(int n){ int s = 0; for(int i = 0; i < n; i++){ s += i; } return s; }\n"
spec = dict(file='x', functions=[dict(name='f', nloops=1, items=[dict(kind='loop', ordinal=1, text=['__CPROVER_loop_invariant(1)'])])], shrinks=[])
out, rep = inject.inject(src, spec)
assert '__CPROVER_loop_invariant(1)' in out and rep['sha256_repo'] == rep['sha256_stripped']
print('kv selftest ok: %d queries registered' % len(registry.QUERIES))
