#!/bin/sh
# run every claimed quick check once, in sequence, and report exit codes + wall time
cd /verif
for id in $(python3 -c "import json; print(' '.join(c['property_id'] for c in json.load(open('MANIFEST.json'))['checks']))"); do
  s=$(date +%s); ./check.sh $id ${1:-quick} > /tmp/runall_$id.out 2>&1; rc=$?; e=$(date +%s)
  echo "$id rc=$rc wall=$((e-s))s $(tail -1 /tmp/runall_$id.out | cut -c1-120)"
done
