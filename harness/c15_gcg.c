/* C15 / C05 (P): GCGchecksum under its contract, the row loop closed by a scalar loop contract: for a row of any length
 * (up to KV_MAXROW) of ASCII bytes no arithmetic overflow, no read outside the row, result in 0..9999.
 * Enforced by goto-instrument --dfcc; the row is created by __CPROVER_is_fresh.                                        */
#include "kv.h"
#include <ctype.h>
#include "tldevel.h"
#include "msa_struct.h"
#include "msa_misc.contracts.h"
#include "msa_misc.c"
#include "stubs_msg.h"

int nondet_int(void);
void h_c15_gcg(void)
{
        char* row;
        int len;
        int r = GCGchecksum(row, len);
        (void)r;
        KV_REACH();
}

/* C15 (P in the row length, 3 rows unwound): GCGMultchecksum with GCGchecksum replaced by its contract (proved above):
 * the total "Check:" of the MSF header is in 0..9999 and is computed from rows of the declared alignment length, each
 * inside its own buffer (the replaced call's precondition is ASSERTED here: row buffer holds alnlen + 1 bytes).          */
#include "msa_build.h"
#ifndef KV_N
#define KV_N 3
#endif
void h_c15_gcg_mult(void)
{
        int w = kv_in_int();
        struct msa* m;
        int i, r;
        KV_ASSUME(w >= 0 && w <= 1000);
        m = kv_mk_msa_raw(KV_N);
        for(i = 0; i < KV_N; i++){
                m->sequences[i] = kv_mk_seq_raw(0, 1);
                free(m->sequences[i]->seq);
                m->sequences[i]->seq = malloc((size_t)w + 1);
                __CPROVER_assume(m->sequences[i]->seq != NULL);
        }
        m->aligned = ALN_STATUS_FINAL;
        m->alnlen = w;
        r = GCGMultchecksum(m);
        KV_CHECK(0 <= r && r <= 9999, "GCGMultchecksum: the total checksum is a number of at most four digits");
        KV_REACH();
}
