/* C15 / C05 (P): GCGchecksum under its contract, the row loop closed by a scalar loop contract: for a row of any length
 * (up to KV_MAXROW) of ASCII bytes no arithmetic overflow, no read outside the row, result in 0..9999.
 * Enforced by goto-instrument --dfcc; the row is created by __CPROVER_is_fresh.                                        */
#include "kv.h"
#include <ctype.h>
#include "tldevel.h"
#include "msa_struct.h"
#include "msa_misc.contracts.h"
#include "msa_misc.c"
#include "stubs_msg.h"

int nondet_int(void);
void h_c15_gcg(void)
{
        char* row;
        int len;
        int r = GCGchecksum(row, len);
        (void)r;
        KV_REACH();
}
