/* C07 (B): "the same holds when each side is a group of identical copies": the sequence-profile and profile-profile
 * forward kernels, run on profiles that the REAL make_profile_n / update_n / set_gap_penalties_n build for a group of
 * KV_KA identical copies of a sequence y (rows) -- and, for profile-profile, KV_KB identical copies of x (columns) --
 * must equal the three-state recurrence in which
 *      a pair column scores   KA * KB * subm[y_i][x_j]         (sum of pairs)
 *      every gap penalty is    KA * KB times the pairwise one   (a column of KA residues against gaps in KB sequences)
 * i.e. the group alignment is the pairwise alignment scaled by KA*KB, which is why identical copies align like one sequence;
 * written below as a full-matrix programme (same operation order as the seq-seq reference of c07_seqseq.c).
 * Parameters concrete (KV_PSET), boundary state one of the unit vectors (KV_IN), residues symbolic.               */
#include "kv.h"
#include "tldevel.h"
#include "aln_param.h"
#include "aln_struct.h"
#include "aln_mem.h"
#include "stubs_msg.h"
#include "meetup_spec.h"
#include "aln_setup.c"
#if KV_KB == 1
#include "aln_seqprofile.c"
#else
#include "aln_profileprofile.c"
#endif

#ifndef KV_ROWS
#define KV_ROWS 2
#endif
#ifndef KV_LB
#define KV_LB 2
#endif
#ifndef KV_SB
#define KV_SB 0
#endif
#ifndef KV_EB
#define KV_EB KV_LB
#endif
#ifndef KV_KA
#define KV_KA 2
#endif
#ifndef KV_KB
#define KV_KB 1
#endif
#ifndef KV_PSET
#define KV_PSET 0
#endif
#ifndef KV_IN
#define KV_IN 0
#endif
#define KV_NSYM 3
#define NEG (-FLT_MAX)
#define RMAX(a,b) ((a) > (b) ? (a) : (b))

static const float kv_psets[4][3][3] = {
        { { 5,-4,-4}, {-4, 5,-4}, {-4,-4, 5} },
        { { 5,-4,-4}, {-4, 5,-4}, {-4,-4, 5} },
        { { 5,-1,-1}, {-1, 6, 0}, {-1, 0, 6} },
        /* set 3: code 0 behaves like X under the default protein matrix (self-score -1): aligning it costs, so only the gap
           penalties keep identical copies on the diagonal (used by the C08 diagonal-step shapes) */
        { {-1,-1,-1}, {-1, 5,-1}, {-1,-1, 6} },
};
static const float kv_pens[4][3] = { {8, 6, 0}, {8, 6, 8}, {5.5f, 2, 1}, {5.5f, 2, 1} };
static float kv_subm_rows[23][23];
static float* kv_subm_ptr[23];
static struct aln_param kv_ap;
static uint8_t kv_y[KV_ROWS + 1];
static uint8_t kv_x_store[KV_LB + 2];
#define kv_x (kv_x_store + 1)

static struct states F[KV_ROWS + 1][KV_LB + 1];

/* group recurrence: gap in the row group (state ga) costs oa/ea/ta, gap in the column group (gb) costs ob/eb/tb */
static void ref_forward_groups(struct states in, int startb, int endb, int len_b, float scale,
                               float oa, float ea, float ta, float ob, float eb, float tb)
{
        int i, j;
        F[0][startb] = in;
        for(j = startb + 1; j < endb; j++){
                F[0][j].a = NEG;
                if(startb){ F[0][j].ga = RMAX(F[0][j-1].ga - ea, F[0][j-1].a - oa); }
                else{       F[0][j].ga = RMAX(F[0][j-1].ga, F[0][j-1].a) - ta; }
                F[0][j].gb = NEG;
        }
        F[0][endb].a = NEG; F[0][endb].ga = NEG; F[0][endb].gb = NEG;
        for(i = 1; i <= KV_ROWS; i++){
                F[i][startb].a = NEG;
                F[i][startb].ga = NEG;
                if(startb){ F[i][startb].gb = RMAX(F[i-1][startb].gb - eb, F[i-1][startb].a - ob); }
                else{       F[i][startb].gb = RMAX(F[i-1][startb].gb, F[i-1][startb].a) - tb; }
                for(j = startb + 1; j <= endb; j++){
                        float x = RMAX(RMAX(F[i-1][j-1].a, F[i-1][j-1].ga - oa), F[i-1][j-1].gb - ob);
                        F[i][j].a = x + scale * kv_psets[KV_PSET][kv_y[i-1]][kv_x[j-1]];
                        if(j < endb){
                                F[i][j].ga = RMAX(F[i][j-1].ga - ea, F[i][j-1].a - oa);
                                F[i][j].gb = RMAX(F[i-1][j].gb - eb, F[i-1][j].a - ob);
                        }else{
                                F[i][j].ga = NEG;
                                if(endb != len_b){ F[i][j].gb = RMAX(F[i-1][j].gb - eb, F[i-1][j].a - ob); }
                                else{              F[i][j].gb = RMAX(F[i-1][j].gb, F[i-1][j].a) - tb; }
                        }
                }
        }
}

/* profile of a group of k identical copies of s (k = 1 or 2 or 3), built by the real code: one profile per copy,
   merged along the diagonal by update_n, then scaled for a partner group of `other` sequences */
static float* group_profile(const uint8_t* s, int len, int k, int other)
{
        float* p = NULL;
        int path[KV_ROWS + KV_LB + 4];
        int c, rc;
        rc = make_profile_n(&kv_ap, s, len, &p);
        __CPROVER_assume(rc == OK);
        path[0] = len;
        for(c = 1; c <= len; c++){ path[c] = 0; }
        path[len + 1] = 3;
        for(c = 1; c < k; c++){
                float* q = NULL;
                float* n = malloc(sizeof(float) * 64 * ((size_t)len + 2));
                __CPROVER_assume(n != NULL);
                rc = make_profile_n(&kv_ap, s, len, &q);
                __CPROVER_assume(rc == OK);
                update_n(p, q, n, &kv_ap, path, c, 1);
                free(p); free(q);
                p = n;
        }
        set_gap_penalties_n(p, len, other);
        return p;
}

#define FBITS(x) (*(uint32_t*)&(x))

void h_c07_profiles(void)
{
        struct aln_mem m;
        struct states f[KV_LB + 2];
        struct states in;
        float *pa, *pb = NULL;
        int i, j;
        for(i = 0; i < 23; i++){
                for(j = 0; j < 23; j++){ kv_subm_rows[i][j] = (i < KV_NSYM && j < KV_NSYM) ? kv_psets[KV_PSET][i][j] : 0.0f; }
                kv_subm_ptr[i] = kv_subm_rows[i];
        }
        kv_ap.subm = kv_subm_ptr;
        kv_ap.gpo = kv_pens[KV_PSET][0]; kv_ap.gpe = kv_pens[KV_PSET][1]; kv_ap.tgpe = kv_pens[KV_PSET][2];
        kv_ap.nthreads = 1; kv_ap.score = 0.0f;
        for(i = 0; i < KV_ROWS; i++){ kv_y[i] = kv_in_u8(); KV_ASSUME(kv_y[i] < KV_NSYM); }
        for(i = 0; i < KV_LB; i++){ kv_x[i] = kv_in_u8(); KV_ASSUME(kv_x[i] < KV_NSYM); }
        in.a  = (KV_IN == 0) ? 0.0f : NEG;
        in.ga = (KV_IN == 1) ? 0.0f : NEG;
        in.gb = (KV_IN == 2) ? 0.0f : NEG;
        for(j = 0; j < KV_LB + 2; j++){ f[j].a = 7.25f; f[j].ga = 7.25f; f[j].gb = 7.25f; }
        f[0] = in;

        pa = group_profile(kv_y, KV_ROWS, KV_KA, KV_KB);
        m.f = f; m.b = NULL; m.ap = &kv_ap; m.prof1 = pa; m.seq1 = NULL;
#if KV_KB == 1
        m.seq2 = kv_x; m.prof2 = NULL; m.sip = KV_KA;
#else
        pb = group_profile(kv_x, KV_LB, KV_KB, KV_KA);
        m.seq2 = NULL; m.prof2 = pb; m.sip = KV_KA;
#endif
        m.starta = 0; m.enda = KV_ROWS; m.startb = KV_SB; m.endb = KV_EB; m.len_a = KV_ROWS; m.len_b = KV_LB;
        m.starta_2 = 0; m.enda_2 = 0; m.path = NULL; m.tmp_path = NULL; m.mode = ALN_MODE_FULL;

        /* sum-of-pairs scoring: a column of KA residues against a gap in KB sequences (or the reverse) is KA*KB residue-gap pairs */
        ref_forward_groups(in, KV_SB, KV_EB, KV_LB, (float)(KV_KA * KV_KB),
                           kv_ap.gpo * (KV_KA * KV_KB), kv_ap.gpe * (KV_KA * KV_KB), kv_ap.tgpe * (KV_KA * KV_KB),
                           kv_ap.gpo * (KV_KA * KV_KB), kv_ap.gpe * (KV_KA * KV_KB), kv_ap.tgpe * (KV_KA * KV_KB));
#if KV_KB == 1
        aln_seqprofile_foward(&m);
#else
        aln_profileprofile_foward(&m);
#endif
#ifdef KV_DEBUG
        for(j = KV_SB; j <= KV_EB; j++){ fprintf(stderr, "j=%d kernel (%g %g %g) ref (%g %g %g)\n", j, f[j].a, f[j].ga, f[j].gb, F[KV_ROWS][j].a, F[KV_ROWS][j].ga, F[KV_ROWS][j].gb); }
#endif
        for(j = KV_SB; j <= KV_EB; j++){
                KV_CHECK(FBITS(f[j].a) == FBITS(F[KV_ROWS][j].a), "profile kernel: aligned state equals the group recurrence");
                KV_CHECK(FBITS(f[j].ga) == FBITS(F[KV_ROWS][j].ga), "profile kernel: gap-in-row-group state equals the group recurrence");
                KV_CHECK(FBITS(f[j].gb) == FBITS(F[KV_ROWS][j].gb), "profile kernel: gap-in-column-group state equals the group recurrence");
        }
        free(pa); if(pb){ free(pb); }
        KV_REACH();
}
/* backward == forward on reversed operands, for the profile kernels (profiles of the reversed sequences are built by the
   real profile code as well) */
void h_c07_profiles_mirror(void)
{
        struct aln_mem m, mm;
        struct states f[KV_LB + 2], b[KV_LB + 2];
        struct states in;
        uint8_t ry[KV_ROWS + 1], rx_store[KV_LB + 2];
        uint8_t* rx = rx_store + 1;
        float *pa, *pb = NULL, *rpa, *rpb = NULL;
        int i, j;
        for(i = 0; i < 23; i++){
                for(j = 0; j < 23; j++){ kv_subm_rows[i][j] = (i < KV_NSYM && j < KV_NSYM) ? kv_psets[KV_PSET][i][j] : 0.0f; }
                kv_subm_ptr[i] = kv_subm_rows[i];
        }
        kv_ap.subm = kv_subm_ptr;
        kv_ap.gpo = kv_pens[KV_PSET][0]; kv_ap.gpe = kv_pens[KV_PSET][1]; kv_ap.tgpe = kv_pens[KV_PSET][2];
        kv_ap.nthreads = 1; kv_ap.score = 0.0f;
        for(i = 0; i < KV_ROWS; i++){ kv_y[i] = kv_in_u8(); KV_ASSUME(kv_y[i] < KV_NSYM); }
        for(i = 0; i < KV_LB; i++){ kv_x[i] = kv_in_u8(); KV_ASSUME(kv_x[i] < KV_NSYM); }
        for(i = 0; i < KV_ROWS; i++){ ry[i] = kv_y[KV_ROWS - 1 - i]; }
        for(i = 0; i < KV_LB; i++){ rx[i] = kv_x[KV_LB - 1 - i]; }
        in.a  = (KV_IN == 0) ? 0.0f : NEG;
        in.ga = (KV_IN == 1) ? 0.0f : NEG;
        in.gb = (KV_IN == 2) ? 0.0f : NEG;
        for(j = 0; j < KV_LB + 2; j++){ f[j].a = 7.25f; f[j].ga = 7.25f; f[j].gb = 7.25f; b[j] = f[j]; }
        f[0] = in; b[0] = in;
        pa = group_profile(kv_y, KV_ROWS, KV_KA, KV_KB);
        rpa = group_profile(ry, KV_ROWS, KV_KA, KV_KB);
        m.f = NULL; m.b = b; m.ap = &kv_ap; m.prof1 = pa; m.seq1 = NULL; m.sip = KV_KA;
#if KV_KB == 1
        m.seq2 = kv_x; m.prof2 = NULL;
#else
        pb = group_profile(kv_x, KV_LB, KV_KB, KV_KA);
        rpb = group_profile(rx, KV_LB, KV_KB, KV_KA);
        m.seq2 = NULL; m.prof2 = pb;
#endif
        m.starta = 0; m.enda = KV_ROWS; m.starta_2 = 0; m.enda_2 = KV_ROWS; m.startb = KV_SB; m.endb = KV_EB;
        m.len_a = KV_ROWS; m.len_b = KV_LB; m.path = NULL; m.tmp_path = NULL; m.mode = ALN_MODE_FULL;
        mm = m;
        mm.f = f; mm.b = NULL; mm.prof1 = rpa;
#if KV_KB == 1
        mm.seq2 = rx;
#else
        mm.prof2 = rpb;
#endif
        mm.startb = KV_LB - KV_EB; mm.endb = KV_LB - KV_SB;
#if KV_KB == 1
        aln_seqprofile_backward(&m);
        aln_seqprofile_foward(&mm);
#else
        aln_profileprofile_backward(&m);
        aln_profileprofile_foward(&mm);
#endif
        for(j = 0; j <= KV_EB - KV_SB; j++){
                KV_CHECK(FBITS(b[KV_EB - j].a) == FBITS(f[mm.startb + j].a), "profile kernels: backward == forward on reversed operands (aligned state)");
                KV_CHECK(FBITS(b[KV_EB - j].ga) == FBITS(f[mm.startb + j].ga), "profile kernels: backward == forward on reversed operands (gap-in-row-group state)");
                KV_CHECK(FBITS(b[KV_EB - j].gb) == FBITS(f[mm.startb + j].gb), "profile kernels: backward == forward on reversed operands (gap-in-column-group state)");
        }
        KV_REACH();
}
void h_c07_profiles_meetup(void)
{
        struct aln_mem m;
        struct states f[KV_LB + 2], b[KV_LB + 2];
        int old_cor[5];
        int meet = -7, t = -7, i, j;
        float score = 0.0f, k = (float)(KV_KA * KV_KB);
        struct kv_meet r;
        float *pa, *pb = NULL;
        for(i = 0; i < 23; i++){
                for(j = 0; j < 23; j++){ kv_subm_rows[i][j] = (i < KV_NSYM && j < KV_NSYM) ? kv_psets[KV_PSET][i][j] : 0.0f; }
                kv_subm_ptr[i] = kv_subm_rows[i];
        }
        kv_ap.subm = kv_subm_ptr;
        kv_ap.gpo = kv_pens[KV_PSET][0]; kv_ap.gpe = kv_pens[KV_PSET][1]; kv_ap.tgpe = kv_pens[KV_PSET][2];
        kv_ap.nthreads = 1; kv_ap.score = 0.0f;
        for(i = 0; i < KV_ROWS; i++){ kv_y[i] = (uint8_t)(i % KV_NSYM); }
        for(i = 0; i < KV_LB; i++){ kv_x[i] = (uint8_t)((i + 1) % KV_NSYM); }
        for(j = 0; j < KV_LB + 2; j++){
                f[j].a = kv_state_value(); f[j].ga = kv_state_value(); f[j].gb = kv_state_value();
                b[j].a = kv_state_value(); b[j].ga = kv_state_value(); b[j].gb = kv_state_value();
        }
        pa = group_profile(kv_y, KV_ROWS, KV_KA, KV_KB);
        m.f = f; m.b = b; m.ap = &kv_ap; m.prof1 = pa; m.seq1 = NULL; m.sip = KV_KA;
#if KV_KB == 1
        m.seq2 = kv_x; m.prof2 = NULL;
#else
        pb = group_profile(kv_x, KV_LB, KV_KB, KV_KA);
        m.seq2 = NULL; m.prof2 = pb;
#endif
        m.starta = 0; m.enda = 1; m.starta_2 = 1; m.enda_2 = KV_ROWS; m.startb = KV_SB; m.endb = KV_EB;
        m.len_a = KV_ROWS; m.len_b = KV_LB; m.path = NULL; m.tmp_path = NULL; m.mode = ALN_MODE_FULL;
        old_cor[0] = 0; old_cor[1] = KV_ROWS; old_cor[2] = KV_SB; old_cor[3] = KV_EB; old_cor[4] = 0;
        /* sum-of-pairs penalties of the two groups (see h_c07_profiles) */
        r = spec_meetup(f, b, KV_SB, KV_EB, KV_SB == 0, KV_EB == KV_LB, kv_ap.gpo * k, kv_ap.gpo * k, kv_ap.gpe * k, kv_ap.tgpe * k);
#if KV_KB == 1
        aln_seqprofile_meetup(&m, old_cor, &meet, &t, &score);
#else
        aln_profileprofile_meetup(&m, old_cor, &meet, &t, &score);
#endif
        KV_CHECK(meet == r.c && t == r.t, "profile meetup returns the first best (column, transition) of the meet-in-the-middle rule");
        KV_CHECK(FBITS(score) == FBITS(r.score), "profile meetup returns the score of that candidate");
        free(pa); if(pb){ free(pb); }
        KV_REACH();
}
/* C08 (B): one Hirschberg step of the profile kernels on a diagonal block when BOTH operands are groups of copies of the
   SAME string (KV_KA copies as rows, KV_KB copies -- or the bare sequence -- as columns), unit boundary states, called with
   the arguments aln_runner_serial passes: the step returns transition 1 (aligned -> aligned) at meet == mid.  See
   harness/c08_diag.c for the induction this step belongs to.  Shape: KV_ROWS == KV_LB == length of the string, block
   [KV_S, KV_E] on the diagonal.                                                                                        */
#ifndef KV_S
#define KV_S 0
#endif
#ifndef KV_E
#define KV_E KV_ROWS
#endif
void h_c08_profiles_diag(void)
{
        struct aln_mem m;
        struct states f[KV_LB + 2], b[KV_LB + 2];
        int old_cor[5];
        int meet = -7, t = -7, i, j, mid;
        float score = 0.0f;
        float *pa, *pb = NULL;
        for(i = 0; i < 23; i++){
                for(j = 0; j < 23; j++){ kv_subm_rows[i][j] = (i < KV_NSYM && j < KV_NSYM) ? kv_psets[KV_PSET][i][j] : 0.0f; }
                kv_subm_ptr[i] = kv_subm_rows[i];
        }
        kv_ap.subm = kv_subm_ptr;
        kv_ap.gpo = kv_pens[KV_PSET][0]; kv_ap.gpe = kv_pens[KV_PSET][1]; kv_ap.tgpe = kv_pens[KV_PSET][2];
        kv_ap.nthreads = 1; kv_ap.score = 0.0f;
        for(i = 0; i < KV_ROWS; i++){ kv_y[i] = kv_in_u8(); KV_ASSUME(kv_y[i] < KV_NSYM); kv_x[i] = kv_y[i]; }   /* the same string */
        for(j = 0; j < KV_LB + 2; j++){
                f[j].a = 7.25f; f[j].ga = 7.25f; f[j].gb = 7.25f;
                b[j].a = 7.25f; b[j].ga = 7.25f; b[j].gb = 7.25f;
        }
        f[0].a = 0.0f; f[0].ga = NEG; f[0].gb = NEG;
        b[0].a = 0.0f; b[0].ga = NEG; b[0].gb = NEG;
        pa = group_profile(kv_y, KV_ROWS, KV_KA, KV_KB);
        m.f = f; m.b = b; m.ap = &kv_ap; m.prof1 = pa; m.seq1 = NULL; m.sip = KV_KA;
#if KV_KB == 1
        m.seq2 = kv_x; m.prof2 = NULL;
#else
        pb = group_profile(kv_x, KV_LB, KV_KB, KV_KA);
        m.seq2 = NULL; m.prof2 = pb;
#endif
        mid = (KV_E - KV_S) / 2 + KV_S;
        m.starta = KV_S; m.enda = mid; m.starta_2 = mid; m.enda_2 = KV_E; m.startb = KV_S; m.endb = KV_E;
        m.len_a = KV_ROWS; m.len_b = KV_LB; m.path = NULL; m.tmp_path = NULL; m.mode = ALN_MODE_FULL;
        old_cor[0] = KV_S; old_cor[1] = KV_E; old_cor[2] = KV_S; old_cor[3] = KV_E; old_cor[4] = mid;
#if KV_KB == 1
        aln_seqprofile_foward(&m);
        aln_seqprofile_backward(&m);
        aln_seqprofile_meetup(&m, old_cor, &meet, &t, &score);
#else
        aln_profileprofile_foward(&m);
        aln_profileprofile_backward(&m);
        aln_profileprofile_meetup(&m, old_cor, &meet, &t, &score);
#endif
        KV_CHECK(t == 1, "groups of copies of one string, diagonal block: the step chooses the transition aligned -> aligned");
        KV_CHECK(meet == mid, "groups of copies of one string, diagonal block: the step meets on the diagonal (meet == mid)");
        free(pa); if(pb){ free(pb); }
        KV_REACH();
}
#ifdef KV_NATIVE
int main(void)
{
#if defined(KV_ENTRY_DIAG)
        h_c08_profiles_diag();
#elif defined(KV_ENTRY_MEETUP)
        h_c07_profiles_meetup();
#elif defined(KV_ENTRY_MIRROR)
        h_c07_profiles_mirror();
#else
        h_c07_profiles();
#endif
        return kv_failed ? 1 : 0;
}
#endif
