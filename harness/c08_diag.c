/* C08 (B): one Hirschberg step on IDENTICAL operands picks the diagonal.
 *
 * The recursion invariant INV(block): starta == startb, enda == endb (the block lies on the diagonal), both boundary
 * states are the unit "aligned" state (0, -FLT_MAX, -FLT_MAX) and the two operands are the same string.  It holds at
 * the top (init_alnmem) and -- by the contract of aln_continue (C07.aln_continue, proved) -- for both sub-blocks of a
 * step whose meetup returned transition 1 (aligned -> aligned) at meet == mid.  This harness decides the step itself
 * for one block shape: the REAL forward and backward kernels and the REAL meetup, called with the arguments
 * aln_runner_serial passes (C07.aln_runner_serial, proved: rows [starta, mid) forward, [mid, enda) backward, old_cor =
 * {starta, enda, startb, endb, mid}), return transition 1 and meet == mid for every residue content of the block.
 * With the step for all block sizes up to N, identical sequences of length <= N get path[r] == r for every row, i.e.
 * no gap (make_seq / update_gaps: C01.weave).
 *
 * Parameters: the REAL aln_param_init for the alignment type KV_TYPE (matrix and penalties of the library, concrete).
 * Shape: KV_N rows in the block, KV_TS / KV_TE: the block touches the start / the end of the sequences (terminal gap
 * penalties apply there); one more residue stands outside the block where it does not.
 * Symbolic: every residue (nucleotide types: any of the 5 internal codes, so all-N blocks are included; protein types:
 *           7 of the 23 codes including X, B, Z, see below; -DKV_ALLCODES lifts the restriction).                         */
#include "kv.h"
#ifndef KV_KIND
#define KV_KIND 0
#endif
#include "tldevel.h"
#include "msa_struct.h"
#include "kalign/kalign.h"
#include "aln_param.h"
#include "aln_struct.h"
#include "aln_param.c"
#if KV_KIND == 0
#include "aln_seqseq.c"
#endif
#include "stubs_msg.h"

#ifndef KV_N
#define KV_N 3
#endif
#ifndef KV_TS
#define KV_TS 1
#endif
#ifndef KV_TE
#define KV_TE 1
#endif
#ifndef KV_TYPE
#define KV_TYPE KALIGN_TYPE_DNA
#endif
#define KV_S (KV_TS ? 0 : 1)
#define KV_E (KV_S + KV_N)
#define KV_LEN (KV_E + (KV_TE ? 0 : 1))
#if KV_TYPE == KALIGN_TYPE_PROTEIN || KV_TYPE == KALIGN_TYPE_PROTEIN_DIVERGENT
#define KV_BIOTYPE ALN_BIOTYPE_PROTEIN
#define KV_L 23
#else
#define KV_BIOTYPE ALN_BIOTYPE_DNA
#define KV_L 5
#endif

static uint8_t kv_a[KV_LEN + 1];
static uint8_t kv_b_store[KV_LEN + 2];        /* one pad byte in front: the kernels form seq2 - 1 (OBS-1) */
#define kv_b (kv_b_store + 1)

void h_c08_diag(void)
{
        struct aln_param* ap = NULL;
        struct aln_mem m;
        struct states f[KV_LEN + 2], b[KV_LEN + 2];
        int old_cor[5];
        int meet = -7, t = -7, j, rc, mid;
        float score = 0.0f;

        rc = aln_param_init(&ap, KV_BIOTYPE, 1, KV_TYPE, -1.0f, -1.0f, -1.0f);
        KV_ASSUME(rc == OK && ap != NULL);
        for(j = 0; j < KV_LEN; j++){
                uint8_t r = kv_in_u8();
                KV_ASSUME(r < KV_L);
#if KV_L == 23 && !defined(KV_ALLCODES)
                /* 23 symbolic codes per residue do not finish beyond 3 rows (23 x 23 table look-ups): the protein shapes use
                   A, C, G, W, B, Z, X -- the smallest (X: -1 / 0), the zero (B, Z under gon250) and the largest (W) diagonal
                   entries of both matrices and their mutual off-diagonal scores                                            */
                KV_ASSUME(r == 0 || r == 4 || r == 7 || r == 17 || r == 20 || r == 21 || r == 22);
#endif
                kv_a[j] = r; kv_b[j] = r;                 /* identical operands */
        }
        for(j = 0; j < KV_LEN + 2; j++){                  /* stale contents of the state arrays */
                f[j].a = 7.25f; f[j].ga = 7.25f; f[j].gb = 7.25f;
                b[j].a = 7.25f; b[j].ga = 7.25f; b[j].gb = 7.25f;
        }
        f[0].a = 0.0f; f[0].ga = -FLT_MAX; f[0].gb = -FLT_MAX;
        b[0].a = 0.0f; b[0].ga = -FLT_MAX; b[0].gb = -FLT_MAX;
        mid = (KV_E - KV_S) / 2 + KV_S;
        m.f = f; m.b = b; m.seq1 = kv_a; m.seq2 = kv_b; m.prof1 = NULL; m.prof2 = NULL; m.ap = ap;
        m.starta = KV_S; m.enda = mid; m.starta_2 = mid; m.enda_2 = KV_E; m.startb = KV_S; m.endb = KV_E;
        m.len_a = KV_LEN; m.len_b = KV_LEN; m.path = NULL; m.tmp_path = NULL; m.sip = 1; m.mode = ALN_MODE_FULL;
        m.run_parallel = 0; m.score = 0.0f;
        old_cor[0] = KV_S; old_cor[1] = KV_E; old_cor[2] = KV_S; old_cor[3] = KV_E; old_cor[4] = mid;

        aln_seqseq_foward(&m);
        aln_seqseq_backward(&m);
        aln_seqseq_meetup(&m, old_cor, &meet, &t, &score);

        KV_CHECK(t == 1, "identical operands, diagonal block: the step chooses the transition aligned -> aligned");
        KV_CHECK(meet == mid, "identical operands, diagonal block: the step meets on the diagonal (meet == mid)");
        aln_param_free(ap);
        KV_REACH();
}
#ifdef KV_NATIVE
int main(void){ h_c08_diag(); return kv_failed ? 1 : 0; }
#endif
