/* C04 / C05 (B, capacity-shrunk): kalign_read_input() on FASTA text delivered through stubbed stdio (fopen / getline /
 * fclose), i.e. including read_file_stdin (line splitting, control-character stripping), the "was anything read" test,
 * format sniffing, read_fasta, detect_aligned, set_sip_nsip, check_for_sequences.
 * Shape: line lengths and the first byte of every line are concrete ('>' header, letter, gap symbol, 0 = empty line);
 * the other bytes are symbolic letters / gap symbols.  detect_alphabet (double arithmetic) is replaced by a stub that
 * sets the kind of sequence (its own contract: C13).
 * Contract (C04: blank lines, padding and line wrapping do not matter): the records are the header lines, in order, with
 * the letters of the lines that follow them; at least two records => OK.                                             */
#include <stdio.h>
#include <stdlib.h>
#include <string.h>
#include <sys/types.h>
#include "kv.h"
#include "stubs_msg.h"
#include "stubs_realloc.h"
#include "stubs_str.h"

#ifndef KV_LINELENS
#define KV_LINELENS {0,2,2,2,2}
#endif
#ifndef KV_LINEFIRST
#define KV_LINEFIRST {0,'>','A','>','A'}
#endif
static const int kv_ll[] = KV_LINELENS;
static const int kv_first[] = KV_LINEFIRST;
#define KV_NL ((int)(sizeof(kv_ll)/sizeof(kv_ll[0])))
static char lines[8][8];
static int kv_next_line;
static int kv_open, kv_closed;

/* ---- stdio stubs: the "file" is the array lines[] ---- */
FILE* kv_fopen(const char* p, const char* m){ (void)p; (void)m; kv_open++; kv_next_line = 0; return stdin; }
int kv_fclose(FILE* f){ (void)f; kv_closed++; return 0; }
ssize_t kv_getline(char** lineptr, size_t* n, FILE* f)
{
        int i, k;
        (void)f;
        if(kv_next_line >= KV_NL){ return -1; }
        if(*lineptr == NULL){ *lineptr = malloc(16); __CPROVER_assume(*lineptr != NULL); *n = 16; }
        k = kv_next_line;
        for(i = 0; i < kv_ll[k]; i++){ (*lineptr)[i] = lines[k][i]; }
        (*lineptr)[kv_ll[k]] = '\n';
        (*lineptr)[kv_ll[k] + 1] = 0;
        kv_next_line++;
        return kv_ll[k] + 1;
}
int kv_file_exists(const char* name){ (void)name; return 1; }
struct msa;
int kv_stub_detect_alphabet(struct msa* msa);

#include "tldevel.h"
#define fopen kv_fopen
#define fclose kv_fclose
#define getline kv_getline
#define my_file_exists kv_file_exists
#define detect_alphabet kv_stub_detect_alphabet
#include "msa_io.c"
#undef fopen
#undef fclose
#undef getline
#undef my_file_exists
#undef detect_alphabet

int kv_stub_detect_alphabet(struct msa* msa){ msa->biotype = ALN_BIOTYPE_DNA; return OK; }

#ifdef KV_CBMC
ESL_STOPWATCH* esl_stopwatch_Create(void){ return NULL; }
void esl_stopwatch_Destroy(ESL_STOPWATCH* w){ (void)w; }
int esl_stopwatch_Start(ESL_STOPWATCH* w){ (void)w; return 0; }
int esl_stopwatch_Stop(ESL_STOPWATCH* w){ (void)w; return 0; }
int tl_stopwatch_Display(ESL_STOPWATCH* w){ (void)w; return 0; }
#endif

void h_c04_read_input(void)
{
        struct msa* m = NULL;
        int i, j, rc, nrec = 0, cur = -1, pos = 0;
        for(i = 0; i < KV_NL; i++){
                for(j = 0; j < kv_ll[i]; j++){
                        char c;
                        if(j == 0){ c = (char)kv_first[i]; }
                        else{
#ifdef KV_CONCRETE_BYTES
                                /* concrete bytes: with symbolic bytes the residue counts are symbolic, every append may re-allocate
                                   (phantom paths through the realloc stub) and the query does not finish in 15 min */
                                c = "Ac-N"[(i + j) % 4];
#else
                                int b0 = kv_in_int() != 0, b1 = kv_in_int() != 0;
                                c = b0 ? (b1 ? '-' : 'A') : (b1 ? 'c' : 'N');
#endif
                        }
                        lines[i][j] = c;
                }
                lines[i][kv_ll[i]] = 0;
                if(kv_ll[i] > 0 && kv_first[i] == '>'){ nrec++; }
        }
        kv_open = 0; kv_closed = 0;

        rc = kalign_read_input("file", &m, 1);

        KV_CHECK(kv_open == 1 && kv_closed == 1, "kalign_read_input opens and closes the file once");
        if(nrec >= 2){
                KV_CHECK(rc == OK && m != NULL, "kalign_read_input: FASTA text with at least two records is read");
        }
        if(rc == OK && m != NULL){
                KV_CHECK(m->numseq == nrec, "kalign_read_input: one record per header line (blank lines do not matter)");
                for(i = 0; i < KV_NL; i++){
                        if(kv_ll[i] > 0 && kv_first[i] == '>'){
                                if(cur >= 0){ KV_CHECK(m->sequences[cur]->len == pos, "record length = letters of its lines"); }
                                cur++; pos = 0;
                                for(j = 1; j < kv_ll[i]; j++){ KV_CHECK(m->sequences[cur]->name[j - 1] == lines[i][j], "name = header text"); }
                        }else if(cur >= 0){
                                for(j = 0; j < kv_ll[i]; j++){
                                        char c = lines[i][j];
                                        if(c != '-'){ KV_CHECK(m->sequences[cur]->seq[pos] == c, "residues = letters of the sequence lines, in order"); pos++; }
                                }
                        }
                }
                if(cur >= 0){ KV_CHECK(m->sequences[cur]->len == pos, "record length = letters of its lines"); }
                kalign_free_msa(m);
        }
        KV_REACH();
}
#ifdef KV_NATIVE
int main(void){ h_c04_read_input(); return kv_failed ? 1 : 0; }
#endif
