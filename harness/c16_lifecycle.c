/* C16 / C05 (B): constructor / destructor pairs of the library.  Every object the constructor hands out is
 * completely initialised as far as later stages read it, and after the matching free nothing the library allocated
 * remains allocated (--memory-leak-check).  Shapes are concrete and tiny (capacity-shrunk where the code uses 512).
 *   h_c16_arr_to_msa : kalign_arr_to_msa (array API) -> fields used by kalign_run are defined -> kalign_free_msa
 *   h_c16_alloc_pairs: alloc_msa/resize_msa/kalign_free_msa, alloc_tasks/free_tasks, alloc_aln_mem/resize/free,
 *                      aln_param_init/aln_param_free                                                              */
#include "kv.h"
#include "tldevel.h"
#include "msa_struct.h"
#include "msa_alloc.h"
#include "msa_op.h"
#include "alphabet.h"
#include "task.h"
#include "aln_struct.h"
#include "aln_mem.h"
#include "aln_param.h"
#include "kalign/kalign.h"
#include "stubs_msg.h"
#include "stubs_log.h"
#include "stubs_realloc.h"
#include "stubs_snprintf.h"

#ifndef KV_N
#define KV_N 2
#endif
#ifndef KV_LENS
#define KV_LENS {2,3}
#endif
static const int kv_len[KV_N] = KV_LENS;
#define KV_MAXLEN 4

void h_c16_arr_to_msa(void)
{
        char* in[KV_N];
        int len[KV_N];
        struct msa* m = NULL;
        int i, j, rc;
        for(i = 0; i < KV_N; i++){
                in[i] = malloc((size_t)kv_len[i] + 1);
                __CPROVER_assume(in[i] != NULL);
                for(j = 0; j < kv_len[i]; j++){
                        /* concrete residues (array API precondition: letters); the post-conditions checked here do not depend on
                           the content, and symbolic letters would make detect_alphabet's double arithmetic fully symbolic */
                        in[i][j] = "ACGTacgt"[(i * 3 + j) % 8];
                }
                in[i][kv_len[i]] = 0;
                len[i] = kv_len[i];
        }
        rc = kalign_arr_to_msa(in, len, KV_N, &m);
        KV_CHECK(rc == OK && m != NULL, "kalign_arr_to_msa succeeds");
        if(rc == OK && m != NULL){
                KV_CHECK(m->numseq == KV_N && m->alloc_numseq == KV_N, "numseq");
                KV_CHECK(m->aligned == ALN_STATUS_UNALIGNED || m->aligned == ALN_STATUS_ALIGNED || m->aligned == ALN_STATUS_UNKNOWN, "alignment status defined");
                KV_CHECK(m->biotype == ALN_BIOTYPE_DNA || m->biotype == ALN_BIOTYPE_PROTEIN, "kind of sequence defined (letters only)");
                for(i = 0; i < KV_N; i++){
                        struct msa_seq* s = m->sequences[i];
                        int term = 0;
                        KV_CHECK(s->len == kv_len[i], "len");
                        for(j = 0; j < kv_len[i]; j++){ KV_CHECK(s->seq[j] == in[i][j], "residues copied"); }
                        KV_CHECK(s->seq[kv_len[i]] == 0, "residues NUL-terminated");
                        for(j = 0; j <= kv_len[i]; j++){ KV_CHECK(s->gaps[j] == 0, "gap counts zero"); }
                        /* the canonical sort compares names: they must be defined strings (history independence) */
                        for(j = 0; j < 256; j++){ if(s->name[j] == 0){ term = 1; } }   /* 256 == MSA_NAME_LEN */
                        KV_CHECK(term, "sequence name is a defined, NUL-terminated string");
                }
                kalign_free_msa(m);
        }
        for(i = 0; i < KV_N; i++){ free(in[i]); }
        KV_REACH();
}

void h_c16_alloc_pairs(void)
{
        struct msa* m = NULL;
        struct aln_tasks* t = NULL;
        struct aln_mem* am = NULL;
        struct aln_param* ap = NULL;
        int rc;
        rc = alloc_msa(&m, 2);
        KV_CHECK(rc == OK, "alloc_msa");
        rc = resize_msa(m);
        KV_CHECK(rc == OK && m->alloc_numseq == 2 + KV_CAP, "resize_msa grows the record table");
        kalign_free_msa(m);

        rc = alloc_tasks(&t, 3);
        KV_CHECK(rc == OK && t != NULL, "alloc_tasks");
        free_tasks(t);

        rc = alloc_aln_mem(&am, 4);
        KV_CHECK(rc == OK, "alloc_aln_mem");
        am->len_a = 5; am->len_b = 6;
        rc = resize_aln_mem(am);
        KV_CHECK(rc == OK && am->size >= 8 && am->alloc_path_len >= 13, "resize_aln_mem covers len_a + len_b + 2");
        free_aln_mem(am);

        rc = aln_param_init(&ap, ALN_BIOTYPE_DNA, 1, KALIGN_TYPE_DNA, -1.0f, -1.0f, -1.0f);
        KV_CHECK(rc == OK, "aln_param_init");
        aln_param_free(ap);
        ap = NULL;
        rc = aln_param_init(&ap, ALN_BIOTYPE_DNA, 1, KALIGN_TYPE_PROTEIN, -1.0f, -1.0f, -1.0f);
        KV_CHECK(rc != OK, "aln_param_init rejects a protein type on nucleotides (and frees what it built)");
        KV_REACH();
}
#ifdef KV_NATIVE
int main(void)
{
#ifdef KV_ENTRY_PAIRS
        h_c16_alloc_pairs();
#else
        h_c16_arr_to_msa();
#endif
        return kv_failed ? 1 : 0;
}
#endif
