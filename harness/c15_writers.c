/* C15 / C06 (B, capacity-shrunk): the three writers of msa_io.c with stdio captured into a ghost byte buffer, and the
 * three readers run on the captured bytes.
 * Shape: KV_N rows, KV_W columns, KV_NAMELENS name lengths, KV_FMT (0 fasta, 1 clustal, 2 msf), KV_PROT (kind of sequence).
 * Symbolic: every row byte (one of '-', 'A', 'c', 'N').  Names: concrete strings over letters, digits and _ . | -
 * Contract of kalign_write_msa-level behaviour, from C15:
 *   FASTA   : ">name" line, then the row wrapped at 60 columns (every line but the last has exactly 60);
 *   Clustal : header line, blank line, then ceil(W/60) blocks; every block lists every sequence once, in order, name padded,
 *             at most 60 columns, and the concatenation of a sequence's block pieces is its row;
 *   MSF     : "!!AA_" / "!!NA_" line and Type: P / N according to the kind of sequence; "MSF: <alignment length>";
 *             per sequence Len = alignment length and Check = GCG checksum of the WHOLE row; total Check = sum mod 10000;
 *             "//"; blocks as for Clustal.
 * and from C06: reading the written bytes back gives the same number of rows, order, names, residues and gap positions.   */
#include <stdio.h>
#include <stdlib.h>
#include <string.h>
#include <ctype.h>
#include <time.h>
#include "kv.h"
#include "stubs_msg.h"
#include "stubs_realloc.h"
#include "stubs_qsort.h"
#include "stubs_str.h"
#include "stubs_io.h"
#include "tldevel.h"
#define fprintf kv_fprintf
#define snprintf kv_snprintf
#define fopen kv_fopen
#define fclose kv_fclose
#define time kv_time
#define localtime_r kv_localtime_r
#define strftime kv_strftime
#include "msa_io.c"
#undef fprintf
#undef snprintf
#undef fopen
#undef fclose
#undef time
#undef localtime_r
#undef strftime
#include "msa_build.h"

#ifdef KV_CBMC
ESL_STOPWATCH* esl_stopwatch_Create(void){ return NULL; }
void esl_stopwatch_Destroy(ESL_STOPWATCH* w){ (void)w; }
int esl_stopwatch_Start(ESL_STOPWATCH* w){ (void)w; return 0; }
int esl_stopwatch_Stop(ESL_STOPWATCH* w){ (void)w; return 0; }
int tl_stopwatch_Display(ESL_STOPWATCH* w){ (void)w; return 0; }
#endif

/* output goes to stdout (outfile == NULL) or, with -DKV_LONGOUT, to a file whose name is long enough for the MSF
   description line to outgrow the line buffer (the writer then re-allocates the line and prints it again)        */
#ifdef KV_LONGOUT
#define KV_OUTBASE "an_output_file_with_a_name_that_is_much_longer_than_usual_so_the_line_must_grow.msf"
#define KV_OUTFILE "dir/" KV_OUTBASE
#else
#define KV_OUTBASE "stdout"
#define KV_OUTFILE NULL
#endif
#ifndef KV_N
#define KV_N 2
#endif
#ifndef KV_W
#define KV_W 3
#endif
#ifndef KV_NAMELENS
#define KV_NAMELENS {2,3}
#endif
#ifndef KV_FMT
#define KV_FMT 0
#endif
#ifndef KV_PROT
#define KV_PROT 0
#endif
static const int kv_nl[KV_N] = KV_NAMELENS;
#define KV_MAXNAME 12

static char rows[KV_N][KV_W + 1];
static char names[KV_N][KV_MAXNAME + 1];

static int spec_gcg(const char* s, int len)
{
        int i, chk = 0;
        for(i = 0; i < len; i++){
                int c = s[i];
                if(c >= 'a' && c <= 'z'){ c -= 32; }
                chk = (chk + (i % 57 + 1) * c) % 10000;
        }
        return chk;
}

/* cursor over the captured bytes (FASTA) */
static int pos;
static int at_end(void){ return pos >= kv_outn; }
static int expect_char(int c){ if(pos < kv_outn && kv_out[pos] == (char)c){ pos++; return 1; } return 0; }
static int expect_str(const char* s){ int i; for(i = 0; i < 300 && s[i] != 0; i++){ if(!expect_char(s[i])){ return 0; } } return 1; }

static int maxname(void){ int i, m = 0; for(i = 0; i < KV_N; i++){ if(kv_nl[i] > m){ m = kv_nl[i]; } } return m; }

/* ---- the lines the format rules prescribe (Clustal / MSF), rendered with concrete lengths ---- */
static struct kv_sb cur;
static int kv_spec_total;
static void line_begin(void){ cur.s = kv_exp[kv_exp_n]; cur.cap = KV_MAXLINELEN + 1; cur.n = 0; }
static void line_end(void){ sb_end(&cur); kv_exp_len[kv_exp_n] = (int)cur.n; kv_exp_n++; }
static void line_lit(const char* t){ line_begin(); sb_puts(&cur, t); line_end(); }

static void spec_blocks(void)
{
        int start, i, j;
        for(start = 0; start < KV_W; start += 60){
                int cols = KV_W - start < 60 ? KV_W - start : 60;
                for(i = 0; i < KV_N; i++){
                        line_begin();
                        sb_puts(&cur, names[i]);                                        /* every sequence in every block, in order */
                        for(j = kv_nl[i]; j < maxname() + 5; j++){ sb_putc(&cur, ' '); }  /* name padded to the common width */
                        for(j = 0; j < cols; j++){ sb_putc(&cur, rows[i][start + j]); }   /* at most 60 columns */
                        line_end();
                }
                line_lit("\n");                                                         /* separator after each block */
        }
}
static void spec_clustal(void)
{
        line_lit("Kalign (" KALIGN_PACKAGE_VERSION ") multiple sequence alignment");
        line_lit("");
        spec_blocks();
}
static void spec_msf(void)
{
        int i, total = 0;
        for(i = 0; i < KV_N; i++){ total = (total + spec_gcg(rows[i], KV_W)) % 10000; }
        line_lit(KV_PROT ? "!!AA_MULTIPLE_ALIGNMENT 1.0" : "!!NA_MULTIPLE_ALIGNMENT 1.0");       /* right molecule type */
        line_lit("");
        /* the "MSF: <len> Type: <P|N> ... Check: <sum>" line: its values are compared as recorded arguments (kv_msf), not as text */
        kv_spec_total = total;
#ifdef KV_ENTRY_ROUNDTRIP
        line_begin(); line_end(); kv_exp_len[kv_exp_n - 1] = -1;
#else
        /* ... and the text around them (file name, keywords, date, closing "..") as text: the capture stub prints a '*' for
           each of the three numbers */
        line_begin();
        sb_putc(&cur, ' '); sb_puts(&cur, KV_OUTBASE); sb_puts(&cur, "  MSF: *  Type: *  DATE  Check: *  ..");
        line_end();
#endif
        line_lit("");
        for(i = 0; i < KV_N; i++){
                int j;
                line_begin();
                sb_puts(&cur, " Name: "); sb_puts(&cur, names[i]);
                for(j = kv_nl[i]; j < maxname(); j++){ sb_putc(&cur, ' '); }
                sb_puts(&cur, "  Len:      *  Check:    *  Weight: 1.00");     /* the two numbers are compared as recorded values below */
                line_end();
        }
        line_lit("");
        line_lit("//");
        line_lit("");
        spec_blocks();
}

void h_c15_write(void)
{
        struct msa* m = kv_mk_msa_raw(KV_N);
        int i, j, rc, total = 0;
        for(i = 0; i < KV_N; i++){
                int nres = 0;
                m->sequences[i] = kv_mk_seq_raw(0, KV_W + 1);
                for(j = 0; j < KV_W; j++){
                        /* a symbolic choice among non-zero constants, written as nested conditionals over symbolic bits so that the
                           symbolic execution can see that the byte is never the string terminator (keeps output positions concrete) */
                        int b0 = kv_in_int() != 0, b1 = kv_in_int() != 0;
                        char c = b0 ? (b1 ? '-' : 'A') : (b1 ? 'c' : 'N');
#ifdef KV_FREE
                        /* wide shapes: only the last KV_FREE columns are symbolic, the others cycle through a fixed pattern
                           (60 symbolic columns make the MSF checksum arithmetic run > 20 min) */
                        if(j < KV_W - KV_FREE){ c = "AcN-"[(i + j) % 4]; }
#endif
                        rows[i][j] = c; m->sequences[i]->seq[j] = c;
                        if(c != '-'){ nres++; }
                }
                rows[i][KV_W] = 0; m->sequences[i]->seq[KV_W] = 0;
                KV_ASSUME(nres >= 1);
                m->sequences[i]->len = nres;                       /* len is the residue count, as everywhere in kalign */
                for(j = 0; j < kv_nl[i]; j++){
                        /* names are concrete (lengths from the shape, characters cycling through the allowed set): a symbolic name
                           makes strnlen()/padding positions symbolic and the query runs out of memory */
                        names[i][j] = "aZ7_.|-b"[(i * 3 + j) % 8];
                }
                names[i][kv_nl[i]] = 0;
                free(m->sequences[i]->name);
                m->sequences[i]->name = malloc((size_t)kv_nl[i] + 1);
                __CPROVER_assume(m->sequences[i]->name != NULL);
                for(j = 0; j <= kv_nl[i]; j++){ m->sequences[i]->name[j] = names[i][j]; }
        }
        m->aligned = ALN_STATUS_FINAL;
        m->alnlen = KV_W;
        m->biotype = KV_PROT ? ALN_BIOTYPE_PROTEIN : ALN_BIOTYPE_DNA;
        /* L as kalign_run leaves it: 5 for nucleotides, 23 (ambiguous protein alphabet) for protein */
        m->L = KV_PROT ? ALPHA_ambigiousPROTEIN : ALPHA_defDNA;
        kv_outn = 0; kv_msf.nname = 0; pos = 0; kv_exp_n = 0; kv_line_calls = 0;
#if KV_FMT == 1
        spec_clustal();
#elif KV_FMT == 2
        spec_msf();
#endif

        rc = kalign_write_msa(m, KV_OUTFILE, KV_FMT == 0 ? "fasta" : KV_FMT == 1 ? "clu" : "msf");

        KV_CHECK(rc == OK, "kalign_write_msa returns OK for a finalised alignment");
        KV_CHECK(!kv_out_overflow && !kv_bad_format, "capture: only the known formats, output fits");
        if(rc == OK){
#if KV_FMT == 0
                for(i = 0; i < KV_N; i++){
                        KV_CHECK(expect_char('>') && expect_str(names[i]) && expect_char('\n'), "FASTA: header line is >name");
                        for(j = 0; j < KV_W; j++){
                                KV_CHECK(expect_char(rows[i][j]), "FASTA: row bytes in order");
                                if(j % 60 == 59 && j != KV_W - 1){ KV_CHECK(expect_char('\n'), "FASTA: rows wrapped at 60 columns"); }
                        }
                        KV_CHECK(expect_char('\n'), "FASTA: last line of a row ends with a newline");
                }
                KV_CHECK(at_end(), "FASTA: nothing else is written");
#else
                /* every written line was compared with the prescribed line inside the fprintf stub */
                KV_CHECK(kv_line_calls == kv_exp_n, "exactly the prescribed number of lines is written (header, ceil(width/60) blocks, nothing else)");
#if KV_FMT == 2
                KV_CHECK(kv_msf.len == KV_W, "MSF: header declares the true alignment length");
                KV_CHECK(kv_msf.type == (KV_PROT ? 'P' : 'N'), "MSF: Type is P for protein, N for nucleic acid");
                KV_CHECK(kv_msf.check == kv_spec_total, "MSF: header Check is the sum of the row checksums mod 10000");
                KV_CHECK(kv_msf.nname == KV_N, "MSF: one Name line per sequence");
                for(i = 0; i < KV_N; i++){
                        KV_CHECK(kv_msf.name_len[i] == KV_W, "MSF: every Name line declares the alignment length");
                        KV_CHECK(kv_msf.name_check[i] == spec_gcg(rows[i], KV_W), "MSF: every Name line declares the GCG checksum of the whole row");
                        KV_CHECK(kv_msf.name_width[i] == maxname(), "MSF: names padded to the longest name");
                }
                KV_CHECK(!kv_dec_overflow, "MSF: numbers fit their fields");
#endif
#endif
        }
        (void)total;
        KV_REACH();
}
/* ------------------------------------------------------------------------------------------------ C06 round trip
 * The reader of the same format is run on the PRESCRIBED text (which C15.writers shows to be, byte for byte, what the
 * writer emits for this alignment): same number of rows, same order, same names, same residues, and the same gaps in
 * the same places (gap counts in front of every residue and after the last one).                                       */
static void fasta_text(void)
{
        int i, j;
        for(i = 0; i < KV_N; i++){
                line_begin(); sb_putc(&cur, '>'); sb_puts(&cur, names[i]); line_end();
                for(j = 0; j < KV_W; j += 60){
                        int k;
                        line_begin();
                        for(k = j; k < KV_W && k < j + 60; k++){ sb_putc(&cur, rows[i][k]); }
                        line_end();
                }
        }
}

void h_c06_roundtrip(void)
{
        struct in_buffer* b = NULL;
        struct msa* m = NULL;
        int i, j, rc;
        for(i = 0; i < KV_N; i++){
                int nres = 0;
                for(j = 0; j < KV_W; j++){
                        int b0 = kv_in_int() != 0, b1 = kv_in_int() != 0;
                        char c = b0 ? (b1 ? '-' : 'A') : (b1 ? 'c' : 'N');
                        rows[i][j] = c;
                        if(c != '-'){ nres++; }
                }
                rows[i][KV_W] = 0;
                KV_ASSUME(nres >= 1);
                for(j = 0; j < kv_nl[i]; j++){ names[i][j] = "aZ7_.|-b"[(i * 3 + j) % 8]; }
                names[i][kv_nl[i]] = 0;
        }
        kv_exp_n = 0;
#if KV_FMT == 0
        fasta_text();
#elif KV_FMT == 1
        spec_clustal();
#else
        kv_spec_total = 0;
        spec_msf();
        /* the MSF: line is compared by value in C15.writers; here it only has to carry its keyword */
        { int k; for(k = 0; k < kv_exp_n; k++){ if(kv_exp_len[k] < 0){ cur.s = kv_exp[k]; cur.cap = KV_MAXLINELEN + 1; cur.n = 0; sb_puts(&cur, " stdout  MSF: 1  Type: N  DATE  Check: 1  .."); sb_end(&cur); kv_exp_len[k] = (int)cur.n; } } }
#endif
        rc = alloc_in_buffer(&b, kv_exp_n + 1);
        KV_ASSUME(rc == OK);
        for(i = 0; i < kv_exp_n; i++){
                /* the writers print every line with "%s\n"; a line whose text is "\n" therefore reads back as two empty lines */
                int len = kv_exp_len[i];
                char* l;
                if(len == 1 && kv_exp[i][0] == '\n'){ len = 0; }
                l = malloc((size_t)len + 1);
                __CPROVER_assume(l != NULL);
                for(j = 0; j < len; j++){ l[j] = kv_exp[i][j]; }
                l[len] = 0;
                b->l[b->n_lines]->line = l;
                b->l[b->n_lines]->len = len;
                b->n_lines++;
        }
#if KV_FMT == 0
        rc = read_fasta(b, &m);
#elif KV_FMT == 1
        rc = read_clu(b, &m);
#else
        rc = read_msf(b, &m);
#endif
        KV_CHECK(rc == OK && m != NULL, "reader accepts what the writer of the same format produces");
        if(rc == OK && m != NULL){
                KV_CHECK(m->numseq == KV_N, "round trip: same number of rows");
                for(i = 0; i < KV_N; i++){
                        struct msa_seq* s = m->sequences[i];
                        int p = 0, pend = 0;
                        for(j = 0; j <= kv_nl[i]; j++){ KV_CHECK(s->name[j] == names[i][j], "round trip: same names, same order"); }
                        for(j = 0; j < KV_W; j++){
                                if(rows[i][j] == '-'){ pend++; }
                                else{
                                        KV_CHECK(s->seq[p] == rows[i][j], "round trip: same residues (letters and case)");
                                        KV_CHECK(s->gaps[p] == pend, "round trip: the same gaps in the same places");
                                        p++; pend = 0;
                                }
                        }
                        KV_CHECK(s->len == p, "round trip: same residue count");
                        KV_CHECK(s->gaps[p] == pend, "round trip: same trailing gaps");
                }
                kalign_free_msa(m);
        }
        free_in_buffer(b);
        KV_REACH();
}
#ifdef KV_NATIVE
int main(void)
{
#ifdef KV_ENTRY_ROUNDTRIP
        h_c06_roundtrip();
#else
        h_c15_write();
#endif
        return kv_failed ? 1 : 0;
}
#endif
