/* C02 (P for the frame, on concrete small shapes): write frames of the three functions that run as / after OpenMP
 * tasks in aln_runner(): aln_seqseq_foward, aln_seqseq_backward, aln_seqseq_meetup.  The assigns clauses of
 * contracts/aln_seqseq.contracts.h are enforced by goto-instrument --dfcc (every store in the real body is checked
 * against the frame); shapes as in C07 (the set of stores does not depend on the sizes).                            */
#include "kv.h"
#include "tldevel.h"
#include "aln_param.h"
#include "aln_struct.h"
#ifndef KV_KERNEL
#define KV_KERNEL 0
#endif
#if KV_KERNEL == 0
#include "aln_seqseq.c"
#include "aln_seqseq.contracts.h"
#define K_FWD aln_seqseq_foward
#define K_BWD aln_seqseq_backward
#define K_MEET aln_seqseq_meetup
#elif KV_KERNEL == 1
#include "aln_seqprofile.c"
#include "aln_seqprofile.contracts.h"
#define K_FWD aln_seqprofile_foward
#define K_BWD aln_seqprofile_backward
#define K_MEET aln_seqprofile_meetup
#else
#include "aln_profileprofile.c"
#include "aln_profileprofile.contracts.h"
#define K_FWD aln_profileprofile_foward
#define K_BWD aln_profileprofile_backward
#define K_MEET aln_profileprofile_meetup
#endif
#include "stubs_msg.h"

#ifndef KV_ROWS
#define KV_ROWS 2
#endif
#ifndef KV_LB
#define KV_LB 3
#endif
#define KV_NSYM 3
static float kv_subm_rows[KV_NSYM][KV_NSYM];
static float* kv_subm_ptr[KV_NSYM];
static struct aln_param kv_ap;
static uint8_t kv_a[KV_ROWS + 1];
static uint8_t kv_b_store[KV_LB + 2];
static struct states kv_f[KV_LB + 2], kv_bk[KV_LB + 2];
/* profiles: 64 floats per column, len + 2 columns (make_profile_n allocates len + 2); contents symbolic small numbers */
static float kv_prof1[64 * (KV_ROWS + 3)], kv_prof2[64 * (KV_LB + 3)];

void h_c02_frames(void)
{
        struct aln_mem m;
        int old_cor[5];
        int meet = -7, t = -7, i, j;
        float score = 0.0f;
        for(i = 0; i < KV_NSYM; i++){
                for(j = 0; j < KV_NSYM; j++){ kv_subm_rows[i][j] = (i == j) ? 5.0f : -4.0f; }
                kv_subm_ptr[i] = kv_subm_rows[i];
        }
        kv_ap.subm = kv_subm_ptr; kv_ap.gpo = 8; kv_ap.gpe = 6; kv_ap.tgpe = 0; kv_ap.nthreads = 2; kv_ap.score = 0;
        for(i = 0; i < KV_ROWS; i++){ kv_a[i] = kv_in_u8(); KV_ASSUME(kv_a[i] < KV_NSYM); }
        for(i = 0; i <= KV_LB; i++){ kv_b_store[i] = kv_in_u8(); KV_ASSUME(kv_b_store[i] < KV_NSYM); }
        for(j = 0; j < KV_LB + 2; j++){ kv_f[j].a = 0; kv_f[j].ga = -FLT_MAX; kv_f[j].gb = -FLT_MAX; kv_bk[j] = kv_f[j]; }
        for(i = 0; i < 64 * (KV_ROWS + 3); i++){ kv_prof1[i] = (float)(i % 3); }
        for(i = 0; i < 64 * (KV_LB + 3); i++){ kv_prof2[i] = (float)(i % 5); }
        m.f = kv_f; m.b = kv_bk; m.ap = &kv_ap;
#if KV_KERNEL == 0
        m.seq1 = kv_a; m.seq2 = kv_b_store + 1; m.prof1 = NULL; m.prof2 = NULL;
#elif KV_KERNEL == 1
        m.seq1 = NULL; m.seq2 = kv_b_store + 1; m.prof1 = kv_prof1; m.prof2 = NULL;
#else
        m.seq1 = NULL; m.seq2 = NULL; m.prof1 = kv_prof1; m.prof2 = kv_prof2;
#endif
        m.starta = 0; m.enda = 1; m.starta_2 = 1; m.enda_2 = KV_ROWS; m.startb = 0; m.endb = KV_LB;
        m.len_a = KV_ROWS; m.len_b = KV_LB; m.path = NULL; m.tmp_path = NULL; m.sip = 1; m.mode = ALN_MODE_FULL; m.run_parallel = 1;
        old_cor[0] = 0; old_cor[1] = KV_ROWS; old_cor[2] = 0; old_cor[3] = KV_LB; old_cor[4] = 1;
#if KV_WHICH == 0
        K_FWD(&m);
#elif KV_WHICH == 1
        K_BWD(&m);
#else
        K_MEET(&m, old_cor, &meet, &t, &score);
#endif
        KV_REACH();
}
