/* C02 / C10 / C16 (B over concrete guide trees; the recursion is the real one): create_msa_tree() / recursive_aln() --
 * "no merge of two groups starts before both groups are complete".  do_align (static, same translation unit) is replaced
 * by a contract (goto-instrument --dfcc --replace-call-with-contract) whose precondition states, through ghost state, that
 *   both operands of this merge are complete (active) and this merge has not run before,
 *   the merge works on its own aln_mem (the one allocated for it, C02 "per-merge private aln_mem") with the caller's
 *   parameters and in full-alignment mode;
 * alloc_aln_mem / free_aln_mem are harness stubs that hand out one object per merge and count (C16: paired).
 * Afterwards: every merge of the task list ran exactly once, the root is complete, everything allocated was released,
 * run_parallel reflects the thread count.  Trees: KV_TREE 0 = ((0,1),2), 1 = ((0,1),(2,3)), 2 = (((0,1),2),3), 3 = (0,(1,(2,3))). */
#include "kv.h"
#include "tldevel.h"
#include "msa_struct.h"
#include "task.h"
#include "aln_param.h"
#include "aln_struct.h"
#include "aln_mem.h"

#ifndef KV_TREE
#define KV_TREE 0
#endif
#if KV_TREE == 0
#define KV_NSEQ 3
static const int kv_tree[2][2] = { {0, 1}, {3, 2} };
#elif KV_TREE == 1
#define KV_NSEQ 4
static const int kv_tree[3][2] = { {0, 1}, {2, 3}, {4, 5} };
#elif KV_TREE == 2
#define KV_NSEQ 4
static const int kv_tree[3][2] = { {0, 1}, {4, 2}, {5, 3} };
#else
#define KV_NSEQ 4
static const int kv_tree[3][2] = { {2, 3}, {1, 4}, {0, 5} };
#endif
#define KV_NT (KV_NSEQ - 1)

uint8_t* kv_active;                   /* ghost alias of the "complete" flags of create_msa_tree */
int kv_done[KV_NT];                   /* ghost: how often merge i ran */
int kv_cur_mem;                       /* ghost: index of the aln_mem handed out last, -1 when none is live */
int kv_allocs, kv_frees, kv_sorted;
static struct aln_mem kv_mem[KV_NT];
static struct aln_param kv_ap;
static struct aln_tasks* kv_tasks_ptr;

#ifdef KV_CBMC
static int do_align(struct msa* msa,struct aln_tasks* t,struct aln_mem* m, int task_id)
__CPROVER_requires(task_id >= 0 && task_id < KV_NT && t == kv_tasks_ptr)
__CPROVER_requires(kv_active[t->list[task_id]->a] == 1 && kv_active[t->list[task_id]->b] == 1)      /* both groups complete */
__CPROVER_requires(kv_done[task_id] == 0)
__CPROVER_requires(kv_cur_mem >= 0 && kv_cur_mem < KV_NT && m == &kv_mem[kv_cur_mem] && m->ap == &kv_ap && m->mode == ALN_MODE_FULL)
__CPROVER_assigns(kv_done[task_id])
__CPROVER_ensures(kv_done[task_id] == 1 && __CPROVER_return_value == OK);
#endif
#include "aln_run.c"
#include "stubs_msg.h"

int alloc_aln_mem(struct aln_mem** mem, int x)
{
        (void)x;
        KV_CHECK(kv_allocs < KV_NT, "at most one aln_mem per merge");
        kv_cur_mem = kv_allocs < KV_NT ? kv_allocs : 0;
        kv_allocs++;
        kv_mem[kv_cur_mem].ap = NULL; kv_mem[kv_cur_mem].mode = -1;
        *mem = &kv_mem[kv_cur_mem];
        return OK;
}
void free_aln_mem(struct aln_mem* m)
{
        KV_CHECK(kv_cur_mem >= 0 && m == &kv_mem[kv_cur_mem], "the aln_mem of this merge is released by this merge");
        kv_frees++;
        kv_cur_mem = -1;
}
int sort_tasks(struct aln_tasks* t , int order)
{
        (void)t;
        KV_CHECK(order == TASK_ORDER_TREE, "the task list is put into tree order first");
        kv_sorted++;
        return OK;            /* assumed: orders by output node; the list is handed over in that order */
}

void h_c02_tree_order(void)
{
        struct msa msa;
        struct aln_tasks t;
        struct task tk[KV_NT];
        struct task* list[KV_NT];
        int i, rc;
        for(i = 0; i < KV_NT; i++){
                tk[i].a = kv_tree[i][0]; tk[i].b = kv_tree[i][1]; tk[i].c = KV_NSEQ + i; tk[i].p = 0; tk[i].n = 0; tk[i].score = 0.0f;
                list[i] = &tk[i]; kv_done[i] = 0;
        }
        t.list = list; t.profile = NULL; t.n_tasks = KV_NT; t.n_alloc_tasks = KV_NT;
        kv_tasks_ptr = &t;
        msa.numseq = KV_NSEQ; msa.num_profiles = 2 * KV_NSEQ - 1; msa.run_parallel = 7;
        kv_ap.nthreads = kv_in_int();
        KV_ASSUME(kv_ap.nthreads >= 1 && kv_ap.nthreads <= 64);
        kv_allocs = 0; kv_frees = 0; kv_sorted = 0; kv_cur_mem = -1;
        kv_active = NULL;

        rc = create_msa_tree(&msa, &kv_ap, &t);

        KV_CHECK(rc == OK, "create_msa_tree succeeds");
        KV_CHECK(kv_sorted == 1, "tree order established once");
        for(i = 0; i < KV_NT; i++){ KV_CHECK(kv_done[i] == 1, "every merge of the guide tree runs exactly once"); }
        KV_CHECK(kv_allocs == KV_NT && kv_frees == KV_NT && kv_cur_mem == -1, "one aln_mem per merge, each released");
        KV_CHECK(msa.run_parallel == (kv_ap.nthreads == 1 ? 0 : 1), "run_parallel reflects the requested thread count");
        KV_REACH();
}
