/* C15 / C06 / C05 (P over the five format words, loop-free apart from the strstr stub): kalign_write_msa() as a dispatcher.
 * The three writers are replaced by contracts (--replace-call-with-contract) that pin WHICH writer runs and with which
 * arguments; parse_format_argument is the real one.  Obligations:
 *   an alignment that is not FINAL is refused (FAIL) and no writer is called -- nothing half-aligned is ever written;
 *   "msf" -> write_msa_msf, "clu" -> write_msa_clu, "fasta" / "fa" / no format -> write_msa_fasta, each exactly once,
 *   with the caller's msa and output name; a failing writer makes kalign_write_msa fail.
 * Symbolic: alignment status, whether the writer fails.  Shape: the format word KV_WORD (msf, clu, fasta, fa, none).                             */
#include <stdio.h>
#include "kv.h"
#ifndef KV_WORD
#define KV_WORD 0
#endif
#include "stubs_msg.h"
#include "stubs_str.h"
#include "tldevel.h"
#include "msa_struct.h"
#include "msa_io.c"

int kv_w_called, kv_w_which, kv_w_fail;
static struct msa kv_w_msa;
static char kv_w_out[4] = "out";
#ifdef KV_CBMC
#define K_WRITER(name, code) \
static int name(struct msa* msa,char* outfile) \
__CPROVER_requires(kv_w_called == 0 && msa == &kv_w_msa && outfile == kv_w_out) \
__CPROVER_assigns(kv_w_called, kv_w_which) \
__CPROVER_ensures(kv_w_called == 1 && kv_w_which == (code) && __CPROVER_return_value == (kv_w_fail ? FAIL : OK));
K_WRITER(write_msa_fasta, FORMAT_FA)
K_WRITER(write_msa_msf, FORMAT_MSF)
K_WRITER(write_msa_clu, FORMAT_CLU)
ESL_STOPWATCH* esl_stopwatch_Create(void){ return NULL; }
void esl_stopwatch_Destroy(ESL_STOPWATCH* w){ (void)w; }
int esl_stopwatch_Start(ESL_STOPWATCH* w){ (void)w; return 0; }
int esl_stopwatch_Stop(ESL_STOPWATCH* w){ (void)w; return 0; }
int tl_stopwatch_Display(ESL_STOPWATCH* w){ (void)w; return 0; }
#endif

void h_c15_write_dispatch(void)
{
        char w_msf[4] = "msf", w_clu[4] = "clu", w_fasta[6] = "fasta", w_fa[3] = "fa";
        int which = KV_WORD, status = kv_in_int(), rc, want;      /* the format word is a shape parameter (a symbolic choice among
                                                                      five strings of different sizes confuses the pointer checks) */
        char* fmt;
        KV_ASSUME(status == ALN_STATUS_UNALIGNED || status == ALN_STATUS_ALIGNED || status == ALN_STATUS_UNKNOWN || status == ALN_STATUS_FINAL);
        kv_w_fail = kv_in_int() != 0;
        fmt = which == 0 ? w_msf : which == 1 ? w_clu : which == 2 ? w_fasta : which == 3 ? w_fa : NULL;
        want = which == 0 ? FORMAT_MSF : which == 1 ? FORMAT_CLU : FORMAT_FA;
        kv_w_msa.aligned = status;
        kv_w_called = 0; kv_w_which = -1;
        rc = kalign_write_msa(&kv_w_msa, kv_w_out, fmt);
        if(status != ALN_STATUS_FINAL){
                KV_CHECK(rc != OK && kv_w_called == 0, "an alignment that is not final is refused and nothing is written");
        }else{
                KV_CHECK(kv_w_called == 1 && kv_w_which == want, "the writer of the requested format runs exactly once");
                KV_CHECK((rc == OK) == (kv_w_fail == 0), "kalign_write_msa succeeds exactly when the writer does");
        }
        KV_REACH();
}
