/* C04 / C05 (B): detect_alignment_format() -- "format sniffing on the first 100 lines".
 * Contract taken from C04: the format of a file is a property of the file, not of what its record names happen to say:
 *   KV_TEXT 0  FASTA text -- every non-empty line either starts with '>' (then ANY bytes may follow: names and comments are
 *              free text) or consists of residue letters and the gap characters '-' '.' -- is detected as FASTA;
 *   KV_TEXT 1  the header kalign's Clustal writer emits, followed by block lines "name  residues", is detected as Clustal;
 *   KV_TEXT 2  the header kalign's MSF writer emits (type line, MSF: line, Name: lines, //), followed by block lines, is
 *              detected as MSF;
 * names in block lines are built from letters, digits and _ . | - (C06).  Plus the C05 obligations of the query (no access
 * outside the line buffers for any content).
 * Symbolic: KV_K bytes after the '>' of every FASTA header (any byte except NUL / newline), the residue lines (KV_RW
 * letters), the row names (KV_NW characters, the same in the Name: line and the block lines).                                                                                            */
#include <stdio.h>
#include "kv.h"
#include "stubs_msg.h"
#include "stubs_str.h"
#include "tldevel.h"
#include "msa_struct.h"
#include "msa_io.c"

#ifdef KV_CBMC
ESL_STOPWATCH* esl_stopwatch_Create(void){ return NULL; }
void esl_stopwatch_Destroy(ESL_STOPWATCH* w){ (void)w; }
int esl_stopwatch_Start(ESL_STOPWATCH* w){ (void)w; return 0; }
int esl_stopwatch_Stop(ESL_STOPWATCH* w){ (void)w; return 0; }
int tl_stopwatch_Display(ESL_STOPWATCH* w){ (void)w; return 0; }
#endif

#ifndef KV_TEXT
#define KV_TEXT 0
#endif
#ifndef KV_K
#define KV_K 9
#endif
#ifndef KV_NW
#define KV_NW 2          /* name width in the block lines / Name: line */
#endif
#ifndef KV_RW
#define KV_RW 4          /* residues in a FASTA sequence line */
#endif
#define KV_MAXL 12
#define KV_LINEW 64
static char kv_names[2][KV_NW + 1];
static char text[KV_MAXL][KV_LINEW + 1];
static int tlen[KV_MAXL];
static int nlines;
static struct in_line kv_il[KV_MAXL];
static struct in_line* kv_ilp[KV_MAXL];

static void put_line(const char* s)
{
        int i;
        for(i = 0; i < KV_LINEW && s[i] != 0; i++){ text[nlines][i] = s[i]; }
        text[nlines][i] = 0; tlen[nlines] = i; nlines++;
}
static char name_char(void)
{
        unsigned char c = kv_in_u8();
        KV_ASSUME((c >= 'a' && c <= 'z') || (c >= 'A' && c <= 'Z') || (c >= '0' && c <= '9') || c == '_' || c == '.' || c == '|' || c == '-');
        return (char)c;
}
static char res_char(void)
{
        unsigned char c = kv_in_u8();
        KV_ASSUME((c >= 'a' && c <= 'z') || (c >= 'A' && c <= 'Z') || c == '-' || c == '.');
        return (char)c;
}
static void put_header(void)
{
        int k;
        text[nlines][0] = '>';
        for(k = 1; k <= KV_K; k++){
                unsigned char c = kv_in_u8();
                KV_ASSUME(c != 0 && c != '\n' && c != '\r');
                text[nlines][k] = (char)c;
        }
        text[nlines][KV_K + 1] = 0; tlen[nlines] = KV_K + 1; nlines++;
}
static void put_residues(int n)
{
        int k;
        for(k = 0; k < n; k++){ text[nlines][k] = res_char(); }
        text[nlines][n] = 0; tlen[nlines] = n; nlines++;
}
static void put_block_line(int row)
{
        int k = 0, i;
        for(i = 0; i < KV_NW; i++){ text[nlines][k++] = kv_names[row][i]; }
        text[nlines][k++] = ' '; text[nlines][k++] = ' ';
        text[nlines][k++] = res_char(); text[nlines][k++] = res_char();
        text[nlines][k] = 0; tlen[nlines] = k; nlines++;
}

void h_c04_sniff(void)
{
        struct in_buffer b;
        int type = -77, rc, i;
        nlines = 0;
        for(i = 0; i < 2; i++){
                int j;
                for(j = 0; j < KV_NW; j++){ kv_names[i][j] = name_char(); }
                kv_names[i][KV_NW] = 0;
        }
#if KV_TEXT == 0
        put_header(); put_residues(KV_RW); put_line(""); put_header(); put_residues(3);
#elif KV_TEXT == 1
        put_line("Kalign (3.4.1) multiple sequence alignment");
        put_line(""); put_line("");
        put_block_line(0); put_block_line(1); put_line("");
#else
        put_line("!!AA_MULTIPLE_ALIGNMENT 1.0");
        put_line("");
        put_line(" stdout  MSF: 2  Type: P  DATE  Check: 12  ..");
        put_line("");
        for(i = 0; i < 2; i++){
                char l[KV_LINEW + 1] = " Name: ";
                int k = 7, j;
                const char* tail = "  Len:      2  Check:   12  Weight: 1.00";
                for(j = 0; j < KV_NW; j++){ l[k++] = kv_names[i][j]; }
                for(j = 0; tail[j] != 0; j++){ l[k++] = tail[j]; }
                l[k] = 0;
                put_line(l);
        }
        put_line("");
        put_line("//");
        put_line("");
        put_block_line(0); put_block_line(1); put_line("");
#endif
        for(i = 0; i < nlines; i++){ kv_il[i].line = text[i]; kv_il[i].len = tlen[i]; kv_ilp[i] = &kv_il[i]; }
        b.l = kv_ilp; b.n_lines = nlines; b.alloc_lines = KV_MAXL;
        rc = detect_alignment_format(&b, &type);
        KV_CHECK(rc == OK, "format sniffing returns OK");
#if KV_TEXT == 0
        KV_CHECK(type == FORMAT_FA, "FASTA text is detected as FASTA whatever its record names and comments say");
#elif KV_TEXT == 1
        KV_CHECK(type == FORMAT_CLU, "text written by the Clustal writer is detected as Clustal");
#else
        KV_CHECK(type == FORMAT_MSF, "text written by the MSF writer is detected as MSF");
#endif
        KV_REACH();
}
#ifdef KV_NATIVE
int main(void){ h_c04_sniff(); return kv_failed ? 1 : 0; }
#endif
