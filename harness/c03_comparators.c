/* C03 (P / B): the comparators that define the canonical order and restore the caller's order.
 *  sort_by_len_name : length descending, then name (first MSA_NAME_LEN bytes) ascending; for two records whose
 *                     (len, name) differ the order is total: cmp(x,y) == -cmp(y,x); the result depends on nothing
 *                     but len and the name bytes (not on rank, addresses or other fields).
 *  sort_by_rank     : rank ascending, antisymmetric for distinct ranks (ranks are 0..n-1, distinct).
 * Lengths and ranks: full int domain (loop-free -> complete).  Names: symbolic strings of up to KV_NAMELEN bytes;
 * with -DKV_LONGNAMES the two names share a concrete 256-byte prefix and differ only in a symbolic tail.          */
#include "kv.h"
#include "msa_sort.c"
#include "stubs_msg.h"
#include "stubs_qsort.h"

#ifndef KV_NAMELEN
#define KV_NAMELEN 5
#endif
#ifdef KV_LONGNAMES
#define KV_BUF (MSA_NAME_LEN + KV_NAMELEN + 1)
#else
#define KV_BUF (KV_NAMELEN + 1)
#endif

static void mk(struct msa_seq* s, char* name)
{
        int i;
        s->len = kv_in_int();
        s->rank = kv_in_int();
        s->alloc_len = kv_in_int();
        s->seq = NULL; s->s = NULL; s->gaps = NULL;
        s->name = name;
#ifdef KV_LONGNAMES
        for(i = 0; i < MSA_NAME_LEN; i++){ name[i] = 'a'; }
        for(i = MSA_NAME_LEN; i < KV_BUF - 1; i++){ name[i] = kv_in_char(); }
#else
        for(i = 0; i < KV_BUF - 1; i++){ name[i] = kv_in_char(); }
#endif
        name[KV_BUF - 1] = 0;
}

static int names_differ(const char* a, const char* b)
{
        int i;
        for(i = 0; i < KV_BUF; i++){
                if(a[i] != b[i]){ return 1; }
                if(a[i] == 0){ return 0; }
        }
        return 0;
}
/* the specification of the canonical order, written from the property text */
static int spec_before(const struct msa_seq* x, const struct msa_seq* y)
{
        int i;
        if(x->len != y->len){ return x->len > y->len; }
        for(i = 0; i < KV_BUF; i++){
                /* bytes compare as unsigned char (C standard, 7.24.4) */
                int cx = x->name[i] < 0 ? x->name[i] + 256 : x->name[i], cy = y->name[i] < 0 ? y->name[i] + 256 : y->name[i];
                if(cx != cy){ return cx < cy; }
                if(cx == 0){ return 0; }
        }
        return 0;
}

void h_c03_len_name(void)
{
        static char n1[KV_BUF], n2[KV_BUF];
        struct msa_seq s1, s2;
        struct msa_seq *p1 = &s1, *p2 = &s2;
        int c12, c21;
        mk(&s1, n1); mk(&s2, n2);
        c12 = sort_by_len_name(&p1, &p2);
        c21 = sort_by_len_name(&p2, &p1);
        KV_CHECK(c12 == -1 || c12 == 1, "sort_by_len_name returns -1 or 1");
        if(s1.len != s2.len || names_differ(n1, n2)){
                KV_CHECK(c12 == -c21, "sort_by_len_name is antisymmetric for records with different (len, name)");
                KV_CHECK((c12 == -1) == spec_before(&s1, &s2), "sort_by_len_name orders by length descending, then name ascending");
        }
        KV_REACH();
}

void h_c03_rank(void)
{
        static char n1[KV_BUF], n2[KV_BUF];
        struct msa_seq s1, s2;
        struct msa_seq *p1 = &s1, *p2 = &s2;
        int c12, c21;
        mk(&s1, n1); mk(&s2, n2);
        c12 = sort_by_rank(&p1, &p2);
        c21 = sort_by_rank(&p2, &p1);
        if(s1.rank != s2.rank){
                KV_CHECK(c12 == -c21, "sort_by_rank is antisymmetric for distinct ranks");
                KV_CHECK((c12 == -1) == (s1.rank < s2.rank), "sort_by_rank orders by rank ascending");
        }
        KV_REACH();
}
#ifdef KV_NATIVE
int main(void)
{
#ifdef KV_ENTRY_RANK
        h_c03_rank();
#else
        h_c03_len_name();
#endif
        return kv_failed ? 1 : 0;
}
#endif
