/* C15 (B in the row count, complete in the line length): every header line of an MSF file is emitted complete.
 *
 * write_msa_msf prints the description line (" <file>  MSF: ..  Type: ..  <date>  Check: ..  ..") and the Name: lines with
 * snprintf into line buffers of `line_length` bytes; when the text does not fit (a long output file name, long row names)
 * it re-allocates the line to `written + 1` bytes and prints it again.  The full-text query C15.writers cannot reach that
 * path (40 GB after the re-allocation, DESIGN 8.6 seed C15_c).  Here snprintf is replaced by its CONTRACT instead of a
 * text-producing stub:
 *    requires  str .. str+size is writable                                  (checked: __CPROVER_w_ok / ASan natively)
 *    ensures   returns the length the complete text needs, whatever `size` is; the text is complete iff need < size
 * and the length needed by the description / Name: text is chosen by the harness relative to the buffer the writer offers
 * (KV_OVER_DESC / KV_OVER_NAME: need = size of the first attempt + KV_OVER_x; negative = fits, 0 = exactly one byte short
 * because of the terminator, positive = longer).  Ghost state kv_pending records "the last text printed was cut".
 * Obligations (from C15: "every file kalign writes is well-formed", "MSF declares length, checksums, molecule type" -- a cut
 * description line loses exactly those fields):
 *    F1  every snprintf writes inside the object it is given;
 *    F2  a cut line is printed again, into the same line slot, before any other line is produced;
 *    F3  when the writer returns, no line is left cut, and it returns OK;
 *    F4  (reachability) the re-print path was taken exactly as often as the shape prescribes.                              */
#include <stdio.h>
#include <stdlib.h>
#include <string.h>
#include <ctype.h>
#include <time.h>
#include <stdarg.h>
#include "kv.h"
#include "stubs_msg.h"
#include "stubs_qsort.h"
#include "stubs_str.h"
#include "stubs_io.h"

#ifndef KV_OVER_DESC
#define KV_OVER_DESC 0
#endif
#ifndef KV_OVER_NAME
#define KV_OVER_NAME (-100)
#endif

#ifdef KV_CBMC
/* realloc: new block, old block released.  Contents are carried over for small blocks (tables of pointers, <= 128 bytes); for larger ones
   (line buffers) they are left unspecified -- an over-approximation: the writer prints the line again anyway. */
void* realloc(void* p, size_t n)
{
        char* q = malloc(n);
        size_t i, old, k;
        if(q == (char*)0){ return (void*)0; }
        if(p != (void*)0){
                old = __CPROVER_OBJECT_SIZE(p);
                __CPROVER_assert(__CPROVER_POINTER_OFFSET(p) == 0, "realloc stub: pointer is the start of an allocation");
                k = old < n ? old : n;
                if(old % sizeof(void*) == 0 && old <= 128){
                        /* word-wise, so that a table of pointers keeps its pointers (the line table of *_grow shapes) */
                        for(i = 0; i < 16; i++){ if(i < k / sizeof(void*)){ ((void**)q)[i] = ((void**)p)[i]; } }
                }else if(old <= 48){
                        for(i = 0; i < 48; i++){ if(i < k){ q[i] = ((char*)p)[i]; } }
                }
                free(p);
        }
        return q;
}
#endif

static int kv_pending;                 /* ghost: the text printed last was cut                      */
static int kv_pending_need;
static const char* kv_pending_fmt;
static char* kv_pending_dst_old;       /* where the cut text went (the slot is re-allocated)        */
static int kv_reprints;                /* ghost: number of second attempts                          */
static int kv_fit_calls;
static int kv_foreign_while_pending;   /* ghost: some other line was printed while one was cut      */
static int kv_fit_bad_format;

static int kv_fit_snprintf(char* str, size_t size, const char* fmt, ...)
{
        int need;
        kv_fit_calls++;
#ifdef KV_CBMC
        __CPROVER_assert(size == 0 || __CPROVER_w_ok(str, size), "KV_CHECK F1 snprintf writes inside the line buffer it is given (size <= bytes available)");
#endif
        if(kv_pending){
                if(!kv_streq(fmt, kv_pending_fmt)){ kv_foreign_while_pending = 1; }
                need = kv_pending_need;
                kv_reprints++;
        }else if(kv_streq(fmt, KV_FMT_MSF)){
                need = (int)size + (KV_OVER_DESC);
        }else if(kv_streq(fmt, KV_FMT_NAME)){
                need = (int)size + (KV_OVER_NAME);
        }else if(kv_streq(fmt, KV_FMT_AA) || kv_streq(fmt, KV_FMT_NA)){
                need = 27;
        }else if(kv_streq(fmt, KV_FMT_SEP)){
                need = 2;
        }else{
                kv_fit_bad_format = 1;
                need = 0;
        }
        if(size > 0){
                /* a defined, terminated string of min(need, size-1) characters */
                size_t n = (size_t)need < size ? (size_t)need : size - 1;
                size_t i;
                for(i = 0; i < n && i < 400; i++){ str[i] = 'x'; }
                if(n > 0){ str[0] = kv_streq(fmt, KV_FMT_MSF) ? 'D' : kv_streq(fmt, KV_FMT_NAME) ? 'N' : kv_streq(fmt, KV_FMT_SEP) ? '/' : '!'; }
                str[n] = 0;
        }
        if((size_t)need < size){
                kv_pending = 0;
        }else{
                kv_pending = 1; kv_pending_need = need; kv_pending_fmt = fmt; kv_pending_dst_old = str;
        }
        return need;
}
/* the lines handed to fprintf("%s\n"), by their first character: header lines carry the tag the snprintf contract stub put
   there, block lines start with the row name, empty lines and block separators are themselves */
#define KV_MAXOUT 40
static int kv_printed;
static char kv_first[KV_MAXOUT];
static int kv_fit_fprintf(FILE* f, const char* fmt, ...)
{
        va_list ap;
        (void)f;
        va_start(ap, fmt);
        if(kv_streq(fmt, "%s\n")){
                const char* l = va_arg(ap, const char*);
                if(kv_printed < KV_MAXOUT){ kv_first[kv_printed] = l[0]; }
                kv_printed++;
        }
        va_end(ap);
        return 0;
}

#ifdef KV_LCAP_GROW
#undef KV_LCAP
#define KV_LCAP KV_LCAP_GROW   /* capacity (and growth step) of the table of output lines in the capacity-shrunk copy */
#endif
#include "tldevel.h"
#define fprintf kv_fit_fprintf
#define snprintf kv_fit_snprintf
#define fopen kv_fopen
#define fclose kv_fclose
#define time kv_time
#define localtime_r kv_localtime_r
#define strftime kv_strftime
#include "msa_io.c"
#undef fprintf
#undef snprintf
#undef fopen
#undef fclose
#undef time
#undef localtime_r
#undef strftime
#include "msa_build.h"

#ifdef KV_CBMC
ESL_STOPWATCH* esl_stopwatch_Create(void){ return NULL; }
void esl_stopwatch_Destroy(ESL_STOPWATCH* w){ (void)w; }
int esl_stopwatch_Start(ESL_STOPWATCH* w){ (void)w; return 0; }
int esl_stopwatch_Stop(ESL_STOPWATCH* w){ (void)w; return 0; }
int tl_stopwatch_Display(ESL_STOPWATCH* w){ (void)w; return 0; }
#endif

#ifndef KV_N
#define KV_N 2
#endif
#ifndef KV_W
#define KV_W 2
#endif
#ifndef KV_PROT
#define KV_PROT 0
#endif

void h_c15_msf_fit(void)
{
        struct msa* m = kv_mk_msa_raw(KV_N);
        int i, j, rc;
        for(i = 0; i < KV_N; i++){
                m->sequences[i] = kv_mk_seq_raw(0, KV_W + 1);
                for(j = 0; j < KV_W; j++){
                        int b0 = kv_in_int() != 0;
                        m->sequences[i]->seq[j] = b0 ? 'A' : 'c';
                }
                m->sequences[i]->seq[KV_W] = 0;
                m->sequences[i]->len = KV_W;
                free(m->sequences[i]->name);
                m->sequences[i]->name = malloc(3);
                __CPROVER_assume(m->sequences[i]->name != NULL);
                m->sequences[i]->name[0] = 's'; m->sequences[i]->name[1] = (char)('a' + i); m->sequences[i]->name[2] = 0;
        }
        m->aligned = ALN_STATUS_FINAL;
        m->alnlen = KV_W;
        m->biotype = KV_PROT ? ALN_BIOTYPE_PROTEIN : ALN_BIOTYPE_DNA;
        m->L = KV_PROT ? ALPHA_ambigiousPROTEIN : ALPHA_defDNA;
        kv_printed = 0; kv_pending = 0; kv_reprints = 0; kv_fit_calls = 0; kv_foreign_while_pending = 0; kv_fit_bad_format = 0;

        rc = write_msa_msf(m, NULL);

        KV_CHECK(rc == OK, "F3 write_msa_msf returns OK for a finalised alignment");
        KV_CHECK(!kv_fit_bad_format, "only the known header formats are printed");
        KV_CHECK(!kv_foreign_while_pending, "F2 a header line that did not fit is printed again before any other line is produced");
        KV_CHECK(!kv_pending, "F3 no header line is left cut: the description line keeps MSF: / Type: / Check: / .., the Name: lines keep Len: / Check:");
        KV_CHECK(kv_reprints == ((KV_OVER_DESC) >= 0 ? 1 : 0) + ((KV_OVER_NAME) >= 0 ? KV_N : 0), "F4 a line is printed twice exactly when it does not fit");
        KV_CHECK(kv_fit_calls == 3 + KV_N + kv_reprints, "F4 one header line per format item: molecule line, description, one Name: per row, //");
        /* F5: the file is the header (molecule line, empty, description, empty, one Name: line per row, empty, //, empty) and then,
           per block of 60 columns, one line per row in order and a separator -- nothing lost or re-ordered, also when the table of
           output lines had to grow on the way (*_grow shapes: table of KV_LCAP = 4 lines growing three times) */
        {
                static const char exp_first[] = { '!', 0, 'D', 0, 'N', 'N', 0, '/', 0, 's', 's', '\n' };
                KV_CHECK(kv_printed == (int)sizeof(exp_first), "F5 exactly the prescribed number of lines is written");
                for(i = 0; i < (int)sizeof(exp_first); i++){
                        KV_CHECK(kv_first[i] == exp_first[i], "F5 lines come out in the prescribed order (header, then every row of the block, then the separator)");
                }
        }
        KV_REACH();
}
/* ------------------------------------------------------------------------------------------------ sort_out_lines (P)
 * The comparator that puts the buffered Clustal / MSF lines into file order: block ascending (header lines carry block -1),
 * then seq_id ascending (header lines count up from -(numseq+10); the separator of a block carries seq_id == numseq).
 * Contract, over the FULL int domain of both keys (loop-free harness: complete): the sign of the result is the
 * lexicographic comparison of (block, seq_id); no arithmetic overflow; nothing but the two keys is read.               */
void h_c15_sort_out_lines(void)
{
        struct out_line x, y;
        struct out_line* px = &x;
        struct out_line* py = &y;
        int r, spec;
        x.block = kv_in_int(); x.seq_id = kv_in_int(); x.line = NULL;
        y.block = kv_in_int(); y.seq_id = kv_in_int(); y.line = NULL;
        spec = x.block != y.block ? (x.block < y.block ? -1 : 1) : (x.seq_id != y.seq_id ? (x.seq_id < y.seq_id ? -1 : 1) : 0);
        r = sort_out_lines(&px, &py);
        KV_CHECK((spec < 0 && r < 0) || (spec == 0 && r == 0) || (spec > 0 && r > 0), "sort_out_lines orders by block, then by row within the block, for any number of rows and blocks");
        KV_REACH();
}
#ifdef KV_NATIVE
int main(void)
{
#ifdef KV_ENTRY_SORTLINES
        h_c15_sort_out_lines();
        return kv_failed ? 1 : 0;
#endif
        h_c15_msf_fit();
        return kv_failed ? 1 : 0;
}
#endif
