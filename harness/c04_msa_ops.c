/* C04 / C05 / C16 (B, capacity-shrunk): the msa-level operations between reading and aligning.
 *  h_c04_merge : merge_msa(dest, src) -- "splitting the records over several input files" (C04): afterwards dest holds
 *                its own records followed by the records of src, in order, each exactly once; the histogram is the sum;
 *                src is left without records (so that freeing both frees everything exactly once: leak check).
 *  h_c04_detect_dealign : detect_aligned + dealign_msa -- status UNALIGNED only if no gap count is non-zero;
 *                ALIGNED iff there is a gap and all rows have one length; dealign_msa zeroes every gap count.       */
#include "kv.h"
#include "tldevel.h"
#include "msa_struct.h"
#include "msa_alloc.h"
#include "msa_op.h"
#include "alphabet.h"
#include "stubs_msg.h"
#include "stubs_log.h"
#include "stubs_realloc.h"
#include "msa_build.h"

#ifndef KV_ND
#define KV_ND 1     /* records already in dest */
#endif
#ifndef KV_NSRC
#define KV_NSRC 2   /* records in src */
#endif

static struct msa* mk_msa(int n, int tag)
{
        struct msa* m = NULL;
        int i, rc;
        rc = alloc_msa(&m, KV_CAP);
        __CPROVER_assume(rc == OK);
#ifdef KV_FULL
        /* the record table may be exactly full: the readers grow it lazily (before the next record is stored), so an msa
           with numseq == alloc_numseq is what read_fasta / read_clu / read_msf return for 512*k records (here: KV_CAP*k) */
        while(m->alloc_numseq < n){ rc = resize_msa(m); __CPROVER_assume(rc == OK); }
#else
        while(m->alloc_numseq <= n){ rc = resize_msa(m); __CPROVER_assume(rc == OK); }
#endif
        for(i = 0; i < n; i++){
                struct msa_seq* s = m->sequences[i];
                s->len = 1; s->seq[0] = 'A'; s->seq[1] = 0; s->s[0] = 0;
                s->name[0] = (char)('a' + tag); s->name[1] = (char)('0' + i); s->name[2] = 0;
                s->rank = 100 * tag + i;
        }
        m->numseq = n;
        m->letter_freq['A'] = n;
        m->biotype = ALN_BIOTYPE_DNA;
        m->aligned = ALN_STATUS_UNKNOWN;
        m->quiet = 1;
        return m;
}

void h_c04_merge(void)
{
        struct msa* d = mk_msa(KV_ND, 0);
        struct msa* s = mk_msa(KV_NSRC, 1);
        struct msa_seq* want[KV_ND + KV_NSRC];
        int i, rc;
        for(i = 0; i < KV_ND; i++){ want[i] = d->sequences[i]; }
        for(i = 0; i < KV_NSRC; i++){ want[KV_ND + i] = s->sequences[i]; }

        rc = merge_msa(&d, s);

        KV_CHECK(rc == OK, "merge_msa succeeds");
        KV_CHECK(d->numseq == KV_ND + KV_NSRC, "merge_msa: numseq is the sum");
        KV_CHECK(d->alloc_numseq > d->numseq, "merge_msa: a free slot always remains");
        for(i = 0; i < KV_ND + KV_NSRC; i++){
                KV_CHECK(d->sequences[i] == want[i], "merge_msa: dest records followed by src records, in order, each once");
        }
        for(i = 0; i < KV_NSRC; i++){ KV_CHECK(s->sequences[i] == NULL, "merge_msa: src gives its records away"); }
        KV_CHECK(d->letter_freq['A'] == KV_ND + KV_NSRC, "merge_msa: histogram is the sum");
        kalign_free_msa(s);
        kalign_free_msa(d);
        KV_REACH();
}

#ifndef KV_LENS
#define KV_LENS {2,1}
#endif
void h_c04_detect_dealign(void)
{
        static const int lens[] = KV_LENS;
        const int n = (int)(sizeof(lens) / sizeof(lens[0]));
        struct msa* m = kv_mk_msa_raw(n);
        int i, j, anygap = 0, w0 = -1, same = 1;
        for(i = 0; i < n; i++){
                int w = lens[i];
                m->sequences[i] = kv_mk_seq_raw(lens[i], lens[i] + 1);
                for(j = 0; j <= lens[i]; j++){
                        int g = kv_in_int();
                        KV_ASSUME(g >= 0 && g <= 3);
                        m->sequences[i]->gaps[j] = g;
                        if(g){ anygap = 1; }
                        w += g;
                }
                if(w0 < 0){ w0 = w; }else if(w != w0){ same = 0; }
        }
        detect_aligned(m);
        KV_CHECK(m->aligned == ALN_STATUS_UNALIGNED || m->aligned == ALN_STATUS_ALIGNED || m->aligned == ALN_STATUS_UNKNOWN, "detect_aligned: status defined");
        KV_CHECK(m->aligned != ALN_STATUS_UNALIGNED || !anygap, "detect_aligned: UNALIGNED only if there is no gap anywhere");
        KV_CHECK((m->aligned == ALN_STATUS_ALIGNED) == (anygap && same), "detect_aligned: ALIGNED iff some gap and all rows have one length");
        dealign_msa(m);
        for(i = 0; i < n; i++){
                for(j = 0; j <= lens[i]; j++){ KV_CHECK(m->sequences[i]->gaps[j] == 0, "dealign_msa: every gap count is zero"); }
        }
        KV_CHECK(m->aligned == ALN_STATUS_UNALIGNED, "dealign_msa: status UNALIGNED");
        KV_REACH();
}
#ifdef KV_NATIVE
int main(void)
{
#ifdef KV_ENTRY_DETECT
        h_c04_detect_dealign();
#else
        h_c04_merge();
#endif
        return kv_failed ? 1 : 0;
}
#endif
