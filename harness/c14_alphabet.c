/* C14/C05 (P): create_alphabet under its contract; symbolic type among the five
 * constants, one arbitrary table index; all loops bounded by constants of the
 * code (128, 32, 23, 20, 16) -> complete unwinding. Enforced by goto-instrument --dfcc. */
#include "kv.h"
#include "alphabet.c"
#include "stubs_msg.h"
#include "alphabet.contracts.h"

void h_c14_alphabet(void)
{
        struct alphabet* a;
        int type = kv_in_int();
        kv_ac = kv_in_int();
        KV_ASSUME(K_ALPHA_TYPE_OK(type));
        KV_ASSUME(0 <= kv_ac && kv_ac < 128);
        a = create_alphabet(type);
        KV_CHECK(K_POST_ALPHA_L(a, type), "create_alphabet: L");
        KV_CHECK(K_POST_ALPHA_RANGE(a, kv_ac), "create_alphabet: codes in [-1,L)");
        KV_CHECK(K_POST_ALPHA_NONLETTER(a, kv_ac), "create_alphabet: only letters have codes");
        KV_CHECK(K_POST_ALPHA_CASE(a, kv_ac), "create_alphabet: upper/lower case same code");
        KV_CHECK(K_POST_ALPHA_TU(a, type), "create_alphabet: U == T in nucleotide alphabet");
        KV_CHECK(K_POST_ALPHA_WILD(a, type), "create_alphabet: wildcard letter has a code");
        KV_CHECK(K_POST_ALPHA_CORE(a, type, kv_ac), "create_alphabet: core letters have codes");
        if(a){ free(a); }
        KV_REACH();
}
#ifdef KV_NATIVE
int main(void){ h_c14_alphabet(); return kv_failed ? 1 : 0; }
#endif
