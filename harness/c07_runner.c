/* C07 / C02 (P, loop-free): aln_runner_serial() -- order and arguments of one Hirschberg step.  The three kernels of the
 * family selected by the operands and aln_continue are replaced by the contracts of contracts/aln_runner.contracts.h.   */
#include "kv.h"
#include "tldevel.h"
#include "aln_struct.h"
#include "aln_param.h"
#include "aln_runner.contracts.h"
#include "aln_controller.c"
#include "stubs_msg.h"

#ifdef KV_CBMC
static int aln_continue(struct aln_mem* m,float input_states[],int old_cor[],int meet,int transition, uint8_t serial)
__CPROVER_requires(kv_phase == 3 && serial == 1 && meet == kv_meet_ret && transition == kv_t_ret)
__CPROVER_requires(old_cor[0] == kv_sa && old_cor[1] == kv_ea && old_cor[2] == kv_sb && old_cor[3] == kv_eb && old_cor[4] == kv_mid)
__CPROVER_requires(K_FEQ2(input_states[0], kv_in6[0]) && K_FEQ2(input_states[1], kv_in6[1]) && K_FEQ2(input_states[2], kv_in6[2]) &&
                   K_FEQ2(input_states[3], kv_in6[3]) && K_FEQ2(input_states[4], kv_in6[4]) && K_FEQ2(input_states[5], kv_in6[5]))
__CPROVER_assigns(kv_phase)
__CPROVER_ensures(kv_phase == 4)
;
#endif

void h_c07_runner(void)
{
        struct aln_mem m;
        struct states f0[1], b0[1];
        static uint8_t dummy_seq[1];
        static float dummy_prof[1];
        int rc;
        m.starta = kv_in_int(); m.enda = kv_in_int(); m.startb = kv_in_int(); m.endb = kv_in_int();
        KV_ASSUME(m.starta >= 0 && m.starta <= 100000 && m.enda >= 0 && m.enda <= 100000 && m.startb >= 0 && m.startb <= 100000 && m.endb >= 0 && m.endb <= 100000);
        f0[0].a = kv_in_float(); f0[0].ga = kv_in_float(); f0[0].gb = kv_in_float();
        b0[0].a = kv_in_float(); b0[0].ga = kv_in_float(); b0[0].gb = kv_in_float();
        m.f = f0; m.b = b0; m.path = NULL; m.tmp_path = NULL; m.ap = NULL; m.mode = ALN_MODE_FULL; m.run_parallel = 0;
        m.len_a = 0; m.len_b = 0; m.starta_2 = -1; m.enda_2 = -1; m.sip = 1; m.score = 0.0f;
        kv_kind = kv_in_int();
        KV_ASSUME(kv_kind == 0 || kv_kind == 1 || kv_kind == 2);
        m.seq1 = (kv_kind == 0) ? dummy_seq : NULL;
        m.seq2 = dummy_seq;
        m.prof1 = (kv_kind == 0) ? NULL : dummy_prof;
        m.prof2 = (kv_kind == 1) ? dummy_prof : NULL;
        kv_sa = m.starta; kv_ea = m.enda; kv_sb = m.startb; kv_eb = m.endb;
        kv_mid = kv_sa + (kv_ea - kv_sa) / 2;
        kv_in6[0] = f0[0].a; kv_in6[1] = f0[0].ga; kv_in6[2] = f0[0].gb; kv_in6[3] = b0[0].a; kv_in6[4] = b0[0].ga; kv_in6[5] = b0[0].gb;
        kv_meet_ret = kv_in_int(); kv_t_ret = kv_in_int();
        kv_phase = 0;

        rc = aln_runner_serial(&m);

        KV_CHECK(rc == OK, "aln_runner_serial returns OK");
        if(kv_sa >= kv_ea || kv_sb >= kv_eb){
                KV_CHECK(kv_phase == 0, "empty block: nothing is computed");
        }else{
                KV_CHECK(kv_phase == 4, "non-empty block: forward, backward, meetup, split -- each exactly once, in this order");
        }
        KV_REACH();
}
