/* C12 (B): upgma() on KV_N leaves of which the first KV_K are copies of one sequence.
 * Premise of C12, expressed on the distance matrix (what d_estimation delivers, see C11 / sequence_distance.c):
 *   copies (length lc) are mutually at distance 0 + min(10000, lc)/10000;  every copy has the SAME distance to any other
 *   sequence x of length lx (identical strings): d + min(10000, (lc+lx)/2)/10000 with d >= 1 (x is not contained in the
 *   copy nor the reverse);  distances between the other sequences are arbitrary (> 0).  lc, lx, d symbolic.
 * Contract: the returned tree is a binary tree over all leaves and contains a subtree whose leaf set is exactly the
 * set of copies -- so the copies are aligned with each other first (diagonal, C08) and then move as a block (C10).  */
#include "kv.h"
#include "stubs_msg.h"
#include "bisectingKmeans.c"

#ifndef KV_N
#define KV_N 4
#endif
#ifndef KV_K
#define KV_K 2
#endif

static int kv_found;
static int kv_leaves;
/* bitmask of the leaf ids below n; kv_found is set when some subtree has exactly the copies below it */
static int leafmask(struct node* n, int depth)
{
        int m;
        if(n == NULL || depth > KV_N + 1){ return 0; }
        if(n->left == NULL && n->right == NULL){ kv_leaves++; return 1 << n->id; }
        m = leafmask(n->left, depth + 1) | leafmask(n->right, depth + 1);
        if(m == (1 << KV_K) - 1){ kv_found = 1; }
        return m;
}

void h_c12_upgma(void)
{
        float* dm[KV_N];
        float store[KV_N][KV_N];
        int samples[KV_N];
        float delta;
        float dx[KV_N];
        struct node* root;
        int i, j, mask;
        int lc = kv_in_int();                                      /* length of the repeated sequence */
        KV_ASSUME(lc >= 1 && lc <= 200000);
        /* d_estimation: dist = bpm distance + min(10000, (l1 + l2) / 2) / 10000 ; bpm(x, x) = 0 (C11) */
        delta = (float)(((lc + lc) / 2 < 10000 ? (double)((lc + lc) / 2) : 10000.0) / 10000.0);
        for(i = 0; i < KV_N; i++){
                int lx = kv_in_int(), d = kv_in_int(), sm;
                samples[i] = i; dm[i] = store[i];
                KV_ASSUME(lx >= 1 && lx <= 200000);
                KV_ASSUME(d >= 1 && d <= 1024);                    /* not contained in each other: edit distance at least 1 (C11) */
                sm = (lc + lx) / 2;
                dx[i] = (float)d + (float)((sm < 10000 ? (double)sm : 10000.0) / 10000.0);   /* distance copy <-> other sequence i */
        }
        for(i = 0; i < KV_N; i++){
                for(j = i; j < KV_N; j++){
                        float v;
                        if(i == j){ v = delta; }                      /* dm[i][i] is the length term too (bpm(x,x) = 0) */
                        else if(j < KV_K){ v = delta; }               /* copy - copy */
                        else if(i < KV_K){ v = dx[j]; }               /* copy - other: the same for every copy */
                        else{ v = kv_in_float(); KV_ASSUME(v >= 0.0001f && v <= 1025.0f); }
                        store[i][j] = v; store[j][i] = v;
                }
        }
        root = upgma(dm, samples, KV_N);
        KV_CHECK(root != NULL, "upgma returns a tree");
        kv_found = 0; kv_leaves = 0;
        mask = leafmask(root, 0);
        KV_CHECK(mask == (1 << KV_N) - 1 && kv_leaves == KV_N, "upgma: binary tree over all leaves, each exactly once");
        KV_CHECK(kv_found, "upgma: the copies of one sequence form a subtree of their own");
        KV_REACH();
}
#ifdef KV_NATIVE
int main(void){ h_c12_upgma(); return kv_failed ? 1 : 0; }
#endif
