/* C17 (P): compare_pair under its contract, all four loops closed by scalar loop
 * contracts; row widths symbolic 1..KV_MAXW, row contents arbitrary bytes.
 * Enforced by goto-instrument --dfcc; inputs created by __CPROVER_is_fresh. */
#include "kv.h"
#include "tldevel.h"
#include "msa_struct.h"
#include <ctype.h>
#include "msa_cmp.contracts.h"
#include "msa_cmp.c"
#define KV_PART2
#include "msa_cmp.contracts.h"
#include "stubs_msg.h"

int nondet_int(void);
void h_c17_compare_pair(void)
{
        char *a1, *a2, *b1, *b2;
        int la, lb;
        struct cmp_stats* st;
        kv_w1 = nondet_int();
        compare_pair(a1, a2, b1, b2, la, lb, st);
        KV_REACH();
}
