/* C13/C14/C04: detect_alphabet under its contract.
 *   -DKV_C13_FULL : (P) all 128 histogram entries symbolic (0..KV_MAXCOUNT each)
 *   default       : (B-class) one symbolic count per letter, non-letters symbolic too but
 *                   restricted to KV_NONLETTERS representative positions
 * The 128-iteration loops are bounded by the code's constant -> complete unwinding. */
#include "kv.h"
#include "tldevel.h"
#include "msa_struct.h"
#include "alphabet.h"
#include "msa_op.contracts.h"
#include "alphabet.contracts.h"
#include "stubs_log.h"
#include "msa_op.c"
#include "stubs_msg.h"
#include "msa_build.h"

#ifndef KV_MAXCOUNT
#define KV_MAXCOUNT 1000000000
#endif

void h_c13_detect(void)
{
        struct msa* m = kv_mk_msa_raw(1);
        int i, r;
        kv_n_letters = 0; kv_n_nuc = 0; kv_n_protonly = 0;
        for(i = 0; i < 128; i++){
                int c = 0;
#ifdef KV_C13_TABLES
                if(0)
#elif !defined(KV_C13_FULL)
                /* representatives: 3 shared letters, 2 nucleotide-only, 3 protein-only, 2 letters in neither model, 3 non-letters */
#ifdef KV_C13_REPS6
                if(i=='A'||i=='U'||i=='D'||i=='y'||i=='B'||i=='-')
#else
                if(i=='A'||i=='c'||i=='N'||i=='U'||i=='u'||i=='D'||i=='y'||i=='E'||i=='B'||i=='x'||i=='-'||i=='.'||i=='*')
#endif
#endif
                {
                        c = kv_in_int();
                        KV_ASSUME(c >= 0 && c <= KV_MAXCOUNT);
                }
                m->letter_freq[i] = c;
                if(K_LETTER(i)){
                        kv_n_letters += c;
                        if(K_NUC6(i)){ kv_n_nuc += c; }
                        if(K_PROTONLY(i)){ kv_n_protonly += c; }
                }
        }
        m->biotype = ALN_BIOTYPE_UNDEF;
#ifdef KV_C13_TABLES
        kv_ac = kv_in_int();
        KV_ASSUME(0 <= kv_ac && kv_ac < 128);
#endif
#if defined(KV_PREMISE) && KV_PREMISE == 1
        KV_ASSUME(kv_n_letters > 0 && kv_n_nuc == kv_n_letters);
#elif defined(KV_PREMISE) && KV_PREMISE == 2
        KV_ASSUME(kv_n_letters > 0 && 4 * kv_n_protonly >= kv_n_letters);
#endif
        r = detect_alphabet(m);
        KV_CHECK(K_POST_DETECT_NUC(r, m), "detect_alphabet: all-nucleotide letters => nucleotide");
        KV_CHECK(K_POST_DETECT_PROT(r, m), "detect_alphabet: >= 1/4 protein-only letters => protein");
        KV_REACH();
}
#ifdef KV_NATIVE
int main(void){ h_c13_detect(); return kv_failed ? 1 : 0; }
#endif
