/* C01 / C09 / C16 (P, loop-free): kalign() -- the array API -- as a protocol.  Its four callees are replaced by contracts
 * (goto-instrument --dfcc --replace-call-with-contract) whose preconditions pin the order (ghost kv_astep) and the
 * ARGUMENTS of each call, and whose post-conditions let the ghost kv_afail make that step fail:
 *   1 kalign_arr_to_msa(seq, len, numseq)  with exactly the caller's arrays and count            -> the msa of this call
 *   2 kalign_run(msa, max(n_threads,1), type, gpo, gpe, tgpe)  every scoring argument in its own position (C09), msa quiet
 *   3 kalign_msa_to_arr(msa, aligned, out_aln_len)  into exactly the caller's out-parameters      (C01: the returned rows)
 *   4 kalign_free_msa(msa)  exactly once on EVERY path, success or failure (C16: nothing of this call survives it)
 * and kalign() returns OK exactly when all three working steps succeeded.
 * Symbolic: the argument values (pointers are distinct dummy objects), thread count, type, the three penalties over the
 * full float domain, the failing step.                                                                               */
#include "kv.h"
#include "tldevel.h"
#include "msa_struct.h"
#include "alphabet.h"
#include "aln_param.h"
#include "task.h"
#include "kalign/kalign.h"
#include "msa_op.h"
#include "msa_alloc.h"
#include "msa_check.h"
#include "msa_sort.h"
#include "bisectingKmeans.h"
#include "aln_run.h"

int kv_astep, kv_afail, kv_afreed;
int kv_a_numseq, kv_a_nthreads, kv_a_type; float kv_a_gpo, kv_a_gpe, kv_a_tgpe;
static char* kv_a_seq[1]; static int kv_a_len[1]; static char** kv_a_aligned; static int kv_a_outlen;
static struct msa kv_a_msa;
#define K_B(x) (*(uint32_t*)&(x))
#define K_ARET(step) (__CPROVER_return_value == ((kv_afail == (step)) ? FAIL : OK))
#ifdef KV_CBMC
int kalign_run(struct msa *msa, int n_threads, int type, float gpo, float gpe, float tgpe)
__CPROVER_requires(kv_astep == 1)
__CPROVER_requires(msa == &kv_a_msa)
__CPROVER_requires(msa->quiet == 1)
__CPROVER_requires(n_threads == (kv_a_nthreads < 1 ? 1 : kv_a_nthreads))
__CPROVER_requires(type == kv_a_type)
__CPROVER_requires(K_B(gpo) == K_B(kv_a_gpo) && K_B(gpe) == K_B(kv_a_gpe) && K_B(tgpe) == K_B(kv_a_tgpe))
__CPROVER_assigns(kv_astep) __CPROVER_ensures(kv_astep == 2 && K_ARET(2));
int kalign_msa_to_arr(struct msa* msa, char ***aligned, int *out_aln_len)
__CPROVER_requires(kv_astep == 2 && msa == &kv_a_msa && aligned == &kv_a_aligned && out_aln_len == &kv_a_outlen)
__CPROVER_assigns(kv_astep) __CPROVER_ensures(kv_astep == 3 && K_ARET(3));
void kalign_free_msa(struct msa* msa)
__CPROVER_requires(msa == &kv_a_msa && kv_afreed == 0 && kv_astep >= 1)
__CPROVER_assigns(kv_afreed) __CPROVER_ensures(kv_afreed == 1);
#endif
#include "aln_wrap.c"
#include "stubs_msg.h"

/* step 1 as a stub with the same contract (a pointer handed out by an ASSUMED post-condition is not followed by the symbolic
   execution -- the write msa->quiet = 1 would land in a placeholder object -- so this callee assigns it) */
int kalign_arr_to_msa(char** input_sequences, int* len, int numseq,struct msa** multiple_aln)
{
        KV_CHECK(kv_astep == 0 && input_sequences == kv_a_seq && len == kv_a_len && numseq == kv_a_numseq, "step 1: kalign_arr_to_msa with exactly the caller's arrays and count");
        kv_astep = 1;
        if(kv_afail == 1){ return FAIL; }
        *multiple_aln = &kv_a_msa;
        return OK;
}

ESL_STOPWATCH* esl_stopwatch_Create(void){ return NULL; }
void esl_stopwatch_Destroy(ESL_STOPWATCH* w){ (void)w; }
int esl_stopwatch_Start(ESL_STOPWATCH* w){ (void)w; return 0; }
int esl_stopwatch_Stop(ESL_STOPWATCH* w){ (void)w; return 0; }
int tl_stopwatch_Display(ESL_STOPWATCH* w){ (void)w; return 0; }

void h_c16_kalign_api(void)
{
        int rc;
        kv_a_numseq = kv_in_int(); kv_a_nthreads = kv_in_int(); kv_a_type = kv_in_int();
        kv_a_gpo = kv_in_float(); kv_a_gpe = kv_in_float(); kv_a_tgpe = kv_in_float();
        kv_afail = kv_in_int();
        KV_ASSUME(kv_afail >= 0 && kv_afail <= 3);
        kv_a_msa.quiet = 0;
        kv_astep = 0; kv_afreed = 0;

        rc = kalign(kv_a_seq, kv_a_len, kv_a_numseq, kv_a_nthreads, kv_a_type, kv_a_gpo, kv_a_gpe, kv_a_tgpe, &kv_a_aligned, &kv_a_outlen);

        KV_CHECK((rc == OK) == (kv_afail == 0), "kalign returns OK exactly when every step succeeded");
        if(kv_afail == 0){ KV_CHECK(kv_astep == 3, "array -> msa, align, msa -> array: each once, in this order"); }
        KV_CHECK(kv_afreed == (kv_afail == 1 ? 0 : 1), "the msa of this call is released exactly once on every path on which it exists");
        KV_REACH();
}
