/* C05 / C04 / C16 (B, capacity-shrunk): read_fasta() on an in-memory line buffer.
 * Shape: KV_LINELENS = lengths of the input lines (concrete); every byte symbolic over the full byte domain minus
 * control characters (read_file_stdin cuts a line at the first control character), i.e. including bytes >= 0x80,
 * '>' anywhere, punctuation, digits, spaces.
 * Contract (C05 "whatever bytes are in the input"; C04 "readers keep letters, count gap symbols"):
 *   - returns OK or FAIL, never touches memory outside its objects (CBMC checks), leaks nothing on either path;
 *   - on OK: one record per header line, in order; name = the header text; residues = the letters of the following
 *     lines in order; gaps[p] = number of punctuation characters in front of residue p; NUL-terminated;
 *     letter_freq = histogram of the sequence-line bytes.                                                        */
#include "kv.h"
#include "stubs_msg.h"
#include "stubs_realloc.h"
#include "msa_io.c"

#ifdef KV_CBMC
/* unreached by read_fasta: timers used by kalign_read_input */
ESL_STOPWATCH* esl_stopwatch_Create(void){ return NULL; }
void esl_stopwatch_Destroy(ESL_STOPWATCH* w){ (void)w; }
int esl_stopwatch_Start(ESL_STOPWATCH* w){ (void)w; return 0; }
int esl_stopwatch_Stop(ESL_STOPWATCH* w){ (void)w; return 0; }
int tl_stopwatch_Display(ESL_STOPWATCH* w){ (void)w; return 0; }
#endif

#ifndef KV_LINELENS
#define KV_LINELENS {2,2,3}
#endif
#ifndef KV_LINEFIRST
#define KV_LINEFIRST {'>','A','-'}
#endif
static const int kv_ll[] = KV_LINELENS;
/* first byte of every line is part of the concrete shape ('>' = header line, otherwise a representative of a byte class:
   letter, gap symbol, blank, digit, non-ASCII) so that the number of records is concrete; all other bytes are symbolic */
static const int kv_first[] = KV_LINEFIRST;
#define KV_NL ((int)(sizeof(kv_ll)/sizeof(kv_ll[0])))
#define KV_MAXLL 8

static char lines[8][KV_MAXLL + 1];

static int k_isalpha(int c){ return (c >= 'A' && c <= 'Z') || (c >= 'a' && c <= 'z'); }
static int k_ispunct(int c){ return c > 32 && c < 127 && !k_isalpha(c) && !(c >= '0' && c <= '9'); }

void h_c05_read_fasta(void)
{
        struct in_buffer* b = NULL;
        struct msa* m = NULL;
        int i, j, rc;
        rc = alloc_in_buffer(&b, KV_NL + 1);
        KV_ASSUME(rc == OK);
        for(i = 0; i < KV_NL; i++){
                char* l = malloc((size_t)kv_ll[i] + 1);
                __CPROVER_assume(l != NULL);
                for(j = 0; j < kv_ll[i]; j++){
                        char c;
                        if(j == 0){ c = (char)kv_first[i]; }
                        else{
                                c = kv_in_char();
                                /* no control characters inside a line (read_file_stdin stops at the first one) */
                                KV_ASSUME(!((c >= 0 && c < 32) || c == 127));
                        }
                        l[j] = c; lines[i][j] = c;
                }
                l[kv_ll[i]] = 0; lines[i][kv_ll[i]] = 0;
                b->l[i]->line = l;
                b->l[i]->len = kv_ll[i];
        }
        b->n_lines = KV_NL;

        rc = read_fasta(b, &m);

        KV_CHECK(rc == OK || rc == FAIL, "read_fasta returns OK or FAIL");
        if(rc != OK){
                KV_CHECK(m == NULL, "read_fasta: nothing is handed out on failure");
        }else{
                int nrec = 0, cur = -1, pos = 0, pend = 0;
                int freq[128];
                for(i = 0; i < 128; i++){ freq[i] = 0; }
                KV_CHECK(m != NULL, "read_fasta: msa returned on success");
                for(i = 0; i < KV_NL; i++){
                        if(lines[i][0] == '>'){
                                /* previous record complete */
                                if(cur >= 0){
                                        KV_CHECK(m->sequences[cur]->len == pos, "read_fasta: len == number of letters of the record");
                                        KV_CHECK(m->sequences[cur]->seq[pos] == 0, "read_fasta: residues NUL-terminated");
                                        KV_CHECK(m->sequences[cur]->gaps[pos] == pend, "read_fasta: trailing gap count");
                                }
                                cur++; nrec++; pos = 0; pend = 0;
                                KV_CHECK(cur < m->numseq, "read_fasta: one record per header line");
                                for(j = 0; j < kv_ll[i]; j++){
                                        KV_CHECK(m->sequences[cur]->name[j] == lines[i][j + 1], "read_fasta: name is the header text");
                                }
                        }else{
                                for(j = 0; j < kv_ll[i]; j++){
                                        int c = lines[i][j];
                                        if(c >= 0){ freq[c]++; }
                                        if(k_isalpha(c)){
                                                KV_CHECK(cur >= 0, "read_fasta: residues before the first header are rejected");
                                                if(cur >= 0){
                                                        KV_CHECK(m->sequences[cur]->seq[pos] == lines[i][j], "read_fasta: residues are the letters of the sequence lines, in order");
                                                        KV_CHECK(m->sequences[cur]->gaps[pos] == pend, "read_fasta: gaps[p] counts the gap characters in front of residue p");
                                                }
                                                pos++; pend = 0;
                                        }else if(k_ispunct(c)){
                                                pend++;
                                        }
                                }
                        }
                }
                if(cur >= 0){
                        KV_CHECK(m->sequences[cur]->len == pos, "read_fasta: len == number of letters of the record");
                        KV_CHECK(m->sequences[cur]->seq[pos] == 0, "read_fasta: residues NUL-terminated");
                }
                KV_CHECK(m->numseq == nrec, "read_fasta: numseq == number of header lines");
                for(i = 0; i < 128; i++){ KV_CHECK(m->letter_freq[i] == freq[i], "read_fasta: letter_freq is the histogram of the sequence-line bytes"); }
                kalign_free_msa(m);
        }
        free_in_buffer(b);
        KV_REACH();
}
#ifdef KV_NATIVE
int main(void){ h_c05_read_fasta(); return kv_failed ? 1 : 0; }
#endif
