/* C11 / C12 (P, loop-free): calc_distance() -- "only user: pairwise distance with the longer sequence as text".
 * The kernel is replaced by a recording stub with its contract (any value 0..1024, C11.bpm_block); obligations:
 *   the longer sequence is passed as text, the shorter as pattern, with their own lengths;
 *   the kernel's value is returned unchanged (as a float) for the whole range 0..1024.                         */
#include "kv.h"
#include "stubs_msg.h"
static int kv_ret, kv_n, kv_m, kv_calls;
static const unsigned char *kv_t, *kv_p;
int kv_bpm_block_stub(const unsigned char* t, const unsigned char* p, int n, int m)
{
        kv_calls++; kv_t = t; kv_p = p; kv_n = n; kv_m = m;
        return kv_ret;
}
#define bpm_block kv_bpm_block_stub
#include "sequence_distance.c"
#undef bpm_block

void h_c11_calc_distance(void)
{
        static uint8_t a[4], b[4];
        int la = kv_in_int(), lb = kv_in_int();
        float d;
        kv_ret = kv_in_int();
        KV_ASSUME(la >= 0 && lb >= 0);
        KV_ASSUME(kv_ret >= 0 && kv_ret <= 1024);
        kv_calls = 0;
        d = calc_distance(a, b, la, lb);
        KV_CHECK(kv_calls == 1, "calc_distance calls the kernel once");
        KV_CHECK(kv_n >= kv_m, "calc_distance: the longer sequence is the text");
        KV_CHECK((kv_t == a && kv_p == b && kv_n == la && kv_m == lb) || (kv_t == b && kv_p == a && kv_n == lb && kv_m == la), "calc_distance: each sequence goes with its own length");
        KV_CHECK(d == (float)kv_ret, "calc_distance returns the kernel's value unchanged (0..1024)");
        KV_REACH();
}
#ifdef KV_NATIVE
int main(void){ h_c11_calc_distance(); return kv_failed ? 1 : 0; }
#endif
