/* C01 / C04 / C09 / C16 (P, loop-free): kalign_run() as a protocol; every callee replaced by the step contracts of
 * contracts/aln_wrap.contracts.h (goto-instrument --dfcc --replace-call-with-contract).  Symbolic: alignment status and kind
 * of sequence of the input, thread count, type, the three penalties (full float domain), and which step (if any) fails. */
#include "kv.h"
#include "tldevel.h"
#include "msa_struct.h"
#include "alphabet.h"
#include "aln_param.h"
#include "task.h"
#include "kalign/kalign.h"
#include "msa_op.h"
#include "msa_alloc.h"
#include "msa_check.h"
#include "msa_sort.h"
#include "bisectingKmeans.h"
#include "aln_run.h"
#include "aln_wrap.contracts.h"
#include "aln_wrap.c"
#include "stubs_msg.h"

ESL_STOPWATCH* esl_stopwatch_Create(void){ return NULL; }
void esl_stopwatch_Destroy(ESL_STOPWATCH* w){ (void)w; }
int esl_stopwatch_Start(ESL_STOPWATCH* w){ (void)w; return 0; }
int esl_stopwatch_Stop(ESL_STOPWATCH* w){ (void)w; return 0; }
int tl_stopwatch_Display(ESL_STOPWATCH* w){ (void)w; return 0; }

void h_c01_protocol(void)
{
        struct msa msa;
        int rc, expect_last;
        msa.sequences = NULL; msa.sip = NULL; msa.nsip = NULL; msa.plen = NULL; msa.numseq = 2; msa.alloc_numseq = 2; msa.num_profiles = 0;
        msa.quiet = 1; msa.alnlen = 0; msa.L = 0; msa.run_parallel = 0;
        kv_status0 = kv_in_int(); kv_bio = kv_in_int();
        KV_ASSUME(kv_status0 == ALN_STATUS_UNALIGNED || kv_status0 == ALN_STATUS_ALIGNED || kv_status0 == ALN_STATUS_UNKNOWN);
        KV_ASSUME(kv_bio == ALN_BIOTYPE_DNA || kv_bio == ALN_BIOTYPE_PROTEIN);
        msa.aligned = kv_status0; msa.biotype = (uint8_t)kv_bio;
        kv_nthreads = kv_in_int(); kv_type = kv_in_int();
        kv_gpo = kv_in_float(); kv_gpe = kv_in_float(); kv_tgpe = kv_in_float();
        kv_fail_at = kv_in_int();
        KV_ASSUME(kv_fail_at == 0 || (kv_fail_at >= 1 && kv_fail_at <= 11 && kv_fail_at != 4));
        KV_ASSUME(!(kv_fail_at == 2 && kv_status0 == ALN_STATUS_UNALIGNED));     /* step 2 only exists for aligned input */
        KV_ASSUME(!(kv_fail_at == 7 && kv_bio != ALN_BIOTYPE_PROTEIN));          /* step 7 only exists for protein      */
        kv_step = 0; kv_dealigned = 0; kv_ap_freed = 0; kv_tasks_freed = 0;

        rc = kalign_run(&msa, kv_nthreads, kv_type, kv_gpo, kv_gpe, kv_tgpe);

        KV_CHECK((rc == OK) == (kv_fail_at == 0), "kalign_run returns OK exactly when every step succeeded");
        KV_CHECK(kv_ap_freed == 1 && kv_tasks_freed == 1, "parameters and task list are released exactly once on every path");
        expect_last = 11;
        if(kv_fail_at == 0){
                KV_CHECK(kv_step == 11, "all steps ran, in order");
                KV_CHECK(msa.aligned == ALN_STATUS_FINAL, "status FINAL after a successful run");
        }
        (void)expect_last;
        KV_REACH();
}
