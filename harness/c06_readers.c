/* C06 / C04 / C05 (B, capacity-shrunk): read_clu() and read_msf() on in-memory text with the block structure the
 * writers produce (header lines, blank lines, blocks; header text shortened to the keywords the readers look for so
 * that no line is longer than a dozen bytes).  Shape: KV_N rows, KV_W columns written in blocks of KV_BLOCK columns
 * (the readers do not know the constant 60: a block is whatever stands between two blank lines), KV_FMT 1 = Clustal,
 * 2 = MSF.  Symbolic: every row byte (one of '-', 'A', 'c', 'N').  Names: "a", "b", "c" padded to a common width.
 * Contract (C06: reading back what was written): the reader returns one record per sequence, in order, with the name,
 * the residues (letters and case) and, in front of every residue and after the last one, exactly the gaps of the row.
 * Residue buffers start at 2 bytes and grow in steps of 2 (R3), so every growth boundary is crossed.                  */
#include "kv.h"
#include "stubs_msg.h"
#include "stubs_realloc.h"
#include "stubs_str.h"
#include "msa_io.c"

#ifdef KV_CBMC
ESL_STOPWATCH* esl_stopwatch_Create(void){ return NULL; }
void esl_stopwatch_Destroy(ESL_STOPWATCH* w){ (void)w; }
int esl_stopwatch_Start(ESL_STOPWATCH* w){ (void)w; return 0; }
int esl_stopwatch_Stop(ESL_STOPWATCH* w){ (void)w; return 0; }
int tl_stopwatch_Display(ESL_STOPWATCH* w){ (void)w; return 0; }
#endif

#ifndef KV_N
#define KV_N 2
#endif
#ifndef KV_W
#define KV_W 3
#endif
#ifndef KV_BLOCK
#define KV_BLOCK 2
#endif
#ifndef KV_FMT
#define KV_FMT 2
#endif
#ifndef KV_HOSTILE
#define KV_HOSTILE 0
#endif
#ifndef KV_CAP
#define KV_CAP 4
#endif
#define KV_MAXL 40
#define KV_LINEW 24

static char rows[KV_N][KV_W + 1];
static char text[KV_MAXL][KV_LINEW + 1];
static int tlen[KV_MAXL];
static int nlines;

static void put_line(const char* s)
{
        int i;
        for(i = 0; i < KV_LINEW && s[i] != 0; i++){ text[nlines][i] = s[i]; }
        text[nlines][i] = 0; tlen[nlines] = i; nlines++;
}
static void put_block_line(int r, int start)
{
        int j, k = 0;
        text[nlines][k++] = (char)('a' + r);
#ifdef KV_LONGNAME
        /* a row name of KV_LONGNAME characters, possibly longer than the name buffer (MSA_NAME_LEN shrunk to KV_NAMECAP, rule R3) */
        for(j = 1; j < KV_LONGNAME; j++){ text[nlines][k++] = 'x'; }
#endif
        text[nlines][k++] = ' '; text[nlines][k++] = ' ';
        for(j = start; j < KV_W && j < start + KV_BLOCK; j++){ text[nlines][k++] = rows[r][j]; }
        text[nlines][k] = 0; tlen[nlines] = k; nlines++;
}

void h_c06_readers(void)
{
        struct in_buffer* b = NULL;
        struct msa* m = NULL;
        int i, j, rc, start;
        for(i = 0; i < KV_N; i++){
                int nres = 0;
                for(j = 0; j < KV_W; j++){
                        int b0 = kv_in_int() != 0, b1 = kv_in_int() != 0;
                        char c = b0 ? (b1 ? '-' : 'A') : (b1 ? 'c' : 'N');
                        rows[i][j] = c;
                        if(c != '-'){ nres++; }
                }
                rows[i][KV_W] = 0;
                KV_ASSUME(nres >= 1);
        }
        nlines = 0;
#ifdef KV_LEADBLANK
        put_line("");                               /* C04 "blank lines": the file starts with an empty line */
#endif
#if KV_FMT == 1
        put_line("CLUSTAL W");
        put_line("");
#else
#ifndef KV_MINHDR
        put_line("!!NA_MULTIPLE");
        put_line("");
        put_line(" x MSF: 3 ..");
        put_line("");
#endif
        for(i = 0; i < KV_N; i++){
#if KV_HOSTILE == 2
                char l[16] = " Len: 3 Name: a";      /* keywords in the other order: the name ends the line */
                l[14] = (char)('a' + i);
#elif defined(KV_LONGNAME)
                char l[KV_LINEW + 1] = " Name: a";
                int k = 8, q;
                for(q = 1; q < KV_LONGNAME; q++){ l[k++] = 'x'; }
                l[k++] = ' '; l[k++] = 'L'; l[k++] = 'e'; l[k++] = 'n'; l[k++] = ':'; l[k++] = ' '; l[k++] = '3'; l[k] = 0;
                l[7] = (char)('a' + i);
#else
                char l[16] = " Name: a Len: 3";
                l[7] = (char)('a' + i);
#endif
                put_line(l);
        }
        put_line("");
        put_line("//");
        put_line("");
#endif
        for(start = 0; start < KV_W; start += KV_BLOCK){
                for(i = 0; i < KV_N; i++){ put_block_line(i, start); }
#if KV_HOSTILE == 1
                /* malformed: the block goes on without a blank line, more rows than the header named (and, with the
                   shrunk capacity KV_CAP, more than the record table holds) */
                for(i = 0; i < KV_CAP + 1 - KV_N; i++){ put_block_line(i % KV_N, start); }
#endif
#ifdef KV_WSSEP
                put_line("  ");                     /* C04 "blank lines and padding": a separator line made of blanks */
#else
                put_line("");                       /* the writers print "\n" + newline: two empty lines */
                put_line("");
#endif
        }
        rc = alloc_in_buffer(&b, nlines + 1);
        KV_ASSUME(rc == OK);
        for(i = 0; i < nlines; i++){
                char* l = malloc((size_t)tlen[i] + 1);
                __CPROVER_assume(l != NULL);
                for(j = 0; j <= tlen[i]; j++){ l[j] = text[i][j]; }
                b->l[i]->line = l;
                b->l[i]->len = tlen[i];
        }
        b->n_lines = nlines;
#if KV_FMT == 1
        rc = read_clu(b, &m);
#else
        rc = read_msf(b, &m);
#endif
#if KV_HOSTILE == 1
        /* C05: malformed text is either rejected or read without touching anything outside the reader's objects
           (the pointer / bounds / leak obligations of the query); nothing else is promised */
        KV_CHECK(rc == OK || rc == FAIL, "malformed text: the reader returns a status");
        if(rc == OK && m != NULL){ kalign_free_msa(m); m = NULL; }
        rc = FAIL;
#else
        KV_CHECK(rc == OK && m != NULL, "reader accepts block-structured text of its format");
#endif
        if(rc == OK && m != NULL){
                KV_CHECK(m->numseq == KV_N, "same number of rows");
                for(i = 0; i < KV_N; i++){
                        struct msa_seq* s = m->sequences[i];
                        int p = 0, pend = 0;
#ifdef KV_LONGNAME
                        /* a name longer than the name buffer may be cut, but it is still only the NAME: the residues of the row
                           are the letters that follow it (C04 / C06) */
                        KV_CHECK(s->name[0] == (char)('a' + i), "same names (possibly cut to the name buffer), same order");
                        {
                                int k, z = 0;
                                for(k = 0; k < KV_NAMECAP; k++){ if(s->name[k] == 0){ z = 1; } }
                                KV_CHECK(z, "name is NUL-terminated inside its buffer");
                        }
#else
                        KV_CHECK(s->name[0] == (char)('a' + i) && s->name[1] == 0, "same names, same order");
#endif
                        for(j = 0; j < KV_W; j++){
                                if(rows[i][j] == '-'){ pend++; }
                                else{
                                        KV_CHECK(s->seq[p] == rows[i][j], "same residues (letters and case)");
                                        KV_CHECK(s->gaps[p] == pend, "the same gaps in the same places");
                                        p++; pend = 0;
                                }
                        }
                        KV_CHECK(s->len == p, "same residue count");
                        KV_CHECK(s->seq[p] == 0, "residues NUL-terminated");
                        KV_CHECK(s->gaps[p] == pend, "same trailing gaps");
                }
                kalign_free_msa(m);
        }
        free_in_buffer(b);
        KV_REACH();
}
#ifdef KV_NATIVE
int main(void){ h_c06_readers(); return kv_failed ? 1 : 0; }
#endif
