/* C09 (P): aln_param_init under its contract, all arguments symbolic over
 * their full domain (floats include NaN/inf), one arbitrary matrix cell.
 * Loops are bounded by the code's own constant 23 -> complete unwinding.  */
#include "kv.h"
#include "aln_param.c"
#include "stubs_msg.h"
#include "aln_param.contracts.h"

void h_c09_aln_param_init(void)
{
        struct aln_param* ap = NULL;
        int biotype = kv_in_int();
        int type = kv_in_int();
        int n_threads = kv_in_int();
        float gpo = kv_in_float();
        float gpe = kv_in_float();
        float tgpe = kv_in_float();
        int r;
        kv_gi = kv_in_int();
        kv_gj = kv_in_int();
        KV_ASSUME(type >= KALIGN_TYPE_DNA && type <= KALIGN_TYPE_UNDEFINED);
        KV_ASSUME(0 <= kv_gi && kv_gi < 23 && 0 <= kv_gj && kv_gj < 23);

        r = aln_param_init(&ap, biotype, n_threads, type, gpo, gpe, tgpe);

        KV_CHECK(K_POST_INIT_STATUS(r, biotype, type), "aln_param_init status");
        KV_CHECK(K_POST_INIT_GPO (r, ap, biotype, type, gpo), "aln_param_init gpo");
        KV_CHECK(K_POST_INIT_GPE (r, ap, biotype, type, gpe), "aln_param_init gpe");
        KV_CHECK(K_POST_INIT_TGPE(r, ap, biotype, type, tgpe), "aln_param_init tgpe");
        KV_CHECK(K_POST_INIT_SUBM(r, ap, biotype, type, kv_gi, kv_gj), "aln_param_init subm");
        KV_CHECK(K_POST_INIT_NTHREADS(r, ap, n_threads), "aln_param_init nthreads");
        KV_REACH();
}

#ifdef KV_NATIVE
int main(void){ h_c09_aln_param_init(); return kv_failed ? 1 : 0; }
#endif
