/* C04 / C05 (P, loop bounded by the code's constant 1): kalign_read_input() as a protocol, callees replaced by the step
 * contracts of contracts/msa_io.read_input.contracts.h.  Symbolic: number of lines (0..2) and their lengths, the sniffed
 * format, whether an msa from earlier input files exists.                                                             */
#include <stdio.h>
#include "kv.h"
#include "stubs_msg.h"
#include "tldevel.h"
#include "msa_struct.h"
int kv_file_exists(const char* name){ (void)name; return 1; }
#define my_file_exists kv_file_exists
#include "msa_io.c"
#undef my_file_exists
#include "msa_io.read_input.contracts.h"

ESL_STOPWATCH* esl_stopwatch_Create(void){ return NULL; }
void esl_stopwatch_Destroy(ESL_STOPWATCH* w){ (void)w; }
int esl_stopwatch_Start(ESL_STOPWATCH* w){ (void)w; return 0; }
int esl_stopwatch_Stop(ESL_STOPWATCH* w){ (void)w; return 0; }
int tl_stopwatch_Display(ESL_STOPWATCH* w){ (void)w; return 0; }

void h_c04_read_protocol(void)
{
        struct msa* m;
        int have_old = kv_in_int(), rc;
        kv_nlines = kv_in_int(); kv_len0 = kv_in_int(); kv_len1 = kv_in_int(); kv_fmt = kv_in_int();
        KV_ASSUME(have_old == 0 || have_old == 1);
        KV_ASSUME(kv_nlines >= 0 && kv_nlines <= 2 && kv_len0 >= 0 && kv_len0 <= 1000 && kv_len1 >= 0 && kv_len1 <= 1000);
        KV_ASSUME(kv_fmt == FORMAT_FA || kv_fmt == FORMAT_MSF || kv_fmt == FORMAT_CLU || kv_fmt == FORMAT_DETECT_FAIL);
        kv_l0.line = NULL; kv_l0.len = kv_len0; kv_l1.line = NULL; kv_l1.len = kv_len1;
        kv_lines_arr[0] = &kv_l0; kv_lines_arr[1] = &kv_l1;
        kv_buf.l = kv_lines_arr; kv_buf.n_lines = kv_nlines; kv_buf.alloc_lines = 2;
        kv_msa_new.numseq = 2; kv_msa_old.numseq = 2; kv_msa_new.quiet = 0; kv_msa_old.quiet = 1;
        m = have_old ? &kv_msa_old : NULL;
        kv_rstep = 0; kv_buf_freed = 0; kv_m_freed = 0; kv_merged = 0;

        rc = kalign_read_input("file", &m, 1);

        KV_CHECK(kv_buf_freed == 1, "the line buffer is released exactly once on every path");
        if(KV_ANY_NONEMPTY && kv_fmt != FORMAT_DETECT_FAIL){
                KV_CHECK(rc == OK, "a file with a non-empty line in a recognised format is read");
                KV_CHECK(kv_rstep == 6, "sniff, read, kind of sequence, alignment status, member lists -- in this order");
                if(have_old){ KV_CHECK(m == &kv_msa_old && kv_merged == 1 && kv_m_freed == 1, "records are merged into the msa of the earlier inputs, the temporary msa is released"); }
                else{ KV_CHECK(m == &kv_msa_new && kv_merged == 0 && kv_m_freed == 0, "the new msa is handed out"); }
        }else{
                /* a file that contributes nothing leaves the msa of the earlier inputs alone */
                KV_CHECK(rc == OK || !have_old, "an input without records is not an error by itself when earlier inputs exist");
                KV_CHECK(m == (have_old ? &kv_msa_old : NULL), "an input without records does not discard the records of earlier inputs");
        }
        KV_REACH();
}
