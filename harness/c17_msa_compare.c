/* C17: kalign_msa_compare.
 *  h_c17_bound (P in row width): the real kalign_msa_compare on 3 rows of symbolic width 1..KV_MAXW with
 *      compare_pair REPLACED by its proved contract; obligation (injected ghost assertion at the final
 *      division): reproduced <= reference and reference > 0, i.e. the ratio is in [0,1].
 *  h_c17_exact (B): everything real (compare_pair, kalign_check_msa, kalign_sort_msa, GCGchecksum), rows of
 *      KV_N sequences x widths KV_WR / KV_WT over {letter,letter,'-','.'}; the score must equal an independent
 *      count of (residue, partner-or-gap) relations written from the property text, be 100 for alignments that
 *      are equal up to row order and all-gap columns, and not depend on row order.                                  */
#include "kv.h"
#include "tldevel.h"
#include "msa_struct.h"
#include <ctype.h>
#include "msa_cmp.contracts.h"
#include "msa_cmp.c"
#define KV_PART2
#include "msa_cmp.contracts.h"
#include "stubs_msg.h"
#include "stubs_qsort.h"
#include "msa_build.h"

#ifndef KV_N
#define KV_N 3
#endif

#ifdef KV_STUB_CMP_CALLEES
/* assumed contracts of the callees outside msa_cmp.c in the (P) bound query */
int finalise_alignment(struct msa* msa){ (void)msa; return OK; }
int kalign_check_msa(struct msa* msa, int exit_on_error){ (void)msa; (void)exit_on_error; return OK; }
int kalign_sort_msa(struct msa* msa){ (void)msa; return OK; }

static struct msa* kv_mk_final(int w)
{
        struct msa* m = kv_mk_msa_raw(KV_N);
        int i;
        for(i = 0; i < KV_N; i++){
                m->sequences[i] = kv_mk_seq_raw(0, 1);
                free(m->sequences[i]->seq);
                m->sequences[i]->seq = malloc((size_t)w);
                __CPROVER_assume(m->sequences[i]->seq != NULL);
        }
        m->aligned = ALN_STATUS_FINAL;
        m->alnlen = w;
        return m;
}

void h_c17_bound(void)
{
        int wr = kv_in_int(), wt = kv_in_int();
        struct msa *r, *t;
        float score;
        int rc;
        KV_ASSUME(wr >= 1 && wr <= KV_MAXW && wt >= 1 && wt <= KV_MAXW);
        r = kv_mk_final(wr);
        t = kv_mk_final(wt);
        kv_w1 = kv_in_int();
        KV_ASSUME(0 <= kv_w1 && kv_w1 < wr);
        /* non-empty sequences: row 0 of the reference has a residue somewhere (ghost witness column) */
        KV_ASSUME(isalpha((int)r->sequences[0]->seq[kv_w1]));
        rc = kalign_msa_compare(r, t, &score);
        KV_CHECK(rc == OK, "kalign_msa_compare returns OK");
        KV_REACH();
}
#else

#ifndef KV_WR
#define KV_WR 3
#endif
#ifndef KV_WT
#define KV_WT 3
#endif

static char kv_sym(void)
{
        unsigned char c = kv_in_u8();
        KV_ASSUME(c == 'A' || c == 'c' || c == '-' || c == '.');
        return (char)c;
}

static char rowR[KV_N][KV_WR + 1];
static char rowT[KV_N][KV_WT + 1];   /* indexed by NAME, not by position in t */

/* independent definition: partner of the k-th residue of row x w.r.t. row y (index of y's residue in the same column, or -1) */
static int spec_partner(const char* x, const char* y, int w, int k)
{
        int c, nx = -1, ny = -1;
        for(c = 0; c < w; c++){
                int lx = isalpha((int)x[c]) != 0, ly = isalpha((int)y[c]) != 0;
                if(lx){ nx++; }
                if(ly){ ny++; }
                if(lx && nx == k){ return ly ? ny : -1; }
        }
        return -2;
}
static int spec_nres(const char* x, int w)
{
        int c, n = 0;
        for(c = 0; c < w; c++){ if(isalpha((int)x[c])){ n++; } }
        return n;
}

/* turn the gapped rows of m into the form a file reader returns: residues only, gaps[k] = gap symbols in front of residue k */
static void kv_to_gap_counts(struct msa* m, int w)
{
        int i, c;
        for(i = 0; i < KV_N; i++){
                struct msa_seq* q = m->sequences[i];
                int n = 0, pend = 0;
                for(c = 0; c <= w; c++){ q->gaps[c] = 0; }
                for(c = 0; c < w; c++){
                        char ch = q->seq[c];
                        if(isalpha((int)ch)){ q->gaps[n] = pend; pend = 0; q->seq[n] = ch; n++; }
                        else{ pend++; }
                }
                q->gaps[n] = pend;
                q->seq[n] = 0;
                q->len = n;
        }
        m->aligned = ALN_STATUS_ALIGNED;
        m->alnlen = 0;
}

void h_c17_exact(void)
{
        struct msa* r = kv_mk_msa_raw(KV_N);
        struct msa* t = kv_mk_msa_raw(KV_N);
        int perm[KV_N];
        int i, j, k, c, rc;
        long ident = 0, total = 0;
        float score = -1.0f;
        for(i = 0; i < KV_N; i++){
                for(c = 0; c < KV_WR; c++){ rowR[i][c] = kv_sym(); }
                rowR[i][KV_WR] = 0;
                for(c = 0; c < KV_WT; c++){ rowT[i][c] = kv_sym(); }
                rowT[i][KV_WT] = 0;
                /* premise: the same sequences in both alignments (same number of residues per name), non-empty */
                KV_ASSUME(spec_nres(rowR[i], KV_WR) == spec_nres(rowT[i], KV_WT));
                KV_ASSUME(spec_nres(rowR[i], KV_WR) >= 1);
        }
        /* row order of the test alignment: any permutation */
        for(i = 0; i < KV_N; i++){
                perm[i] = kv_in_int();
                KV_ASSUME(perm[i] >= 0 && perm[i] < KV_N);
                for(j = 0; j < i; j++){ KV_ASSUME(perm[j] != perm[i]); }
        }
        for(i = 0; i < KV_N; i++){
                int nm = perm[i];
                r->sequences[i] = kv_mk_seq_raw(spec_nres(rowR[i], KV_WR), KV_WR + 1);
                r->sequences[i]->name[0] = 's'; r->sequences[i]->name[1] = (char)('0' + i); r->sequences[i]->name[2] = 0;
                for(c = 0; c <= KV_WR; c++){ r->sequences[i]->seq[c] = rowR[i][c]; }
                t->sequences[i] = kv_mk_seq_raw(spec_nres(rowT[nm], KV_WT), KV_WT + 1);
                t->sequences[i]->name[0] = 's'; t->sequences[i]->name[1] = (char)('0' + nm); t->sequences[i]->name[2] = 0;
                for(c = 0; c <= KV_WT; c++){ t->sequences[i]->seq[c] = rowT[nm][c]; }
        }
        r->aligned = ALN_STATUS_FINAL; r->alnlen = KV_WR;
        t->aligned = ALN_STATUS_FINAL; t->alnlen = KV_WT;
        /* C17 is quantified over alignments "produced by an alignment run in the same process" (FINAL: gapped rows) and
           "read from a file" (ALIGNED: residues + gap counts, what the readers return): KV_RSTATE / KV_TSTATE == 1 hands the
           reference / the test alignment over in the second form                                                        */
#if defined(KV_RSTATE) && KV_RSTATE == 1
        kv_to_gap_counts(r, KV_WR);
#endif
#if defined(KV_TSTATE) && KV_TSTATE == 1
        kv_to_gap_counts(t, KV_WT);
#endif

        /* the definition, executed */
        for(i = 0; i < KV_N; i++){
                for(j = 0; j < KV_N; j++){
                        if(i == j){ continue; }
                        for(k = 0; k < spec_nres(rowR[i], KV_WR); k++){
                                total++;
                                if(spec_partner(rowR[i], rowR[j], KV_WR, k) == spec_partner(rowT[i], rowT[j], KV_WT, k)){ ident++; }
                        }
                }
        }
        rc = kalign_msa_compare(r, t, &score);
        KV_CHECK(rc == OK, "kalign_msa_compare returns OK on two alignments of the same uniquely named sequences");
        KV_CHECK(score == (float)(100.0 * (double)ident / (double)total), "score == 100 * reproduced / reference relations (independent count)");
        KV_CHECK(score >= 0.0f && score <= 100.0f, "score in [0,100]");
        KV_CHECK(ident != total || score == 100.0f, "all relations reproduced => 100");
        KV_REACH();
}
#ifdef KV_NATIVE
int main(void){ h_c17_exact(); return kv_failed ? 1 : 0; }
#endif
#endif
