/* C09 (P): CLI plumbing in src/run_kalign.c and src/parameters.c.
 *   h_c09_set_aln_type : every documented --type word selects the constant of that name
 *   h_c09_run_kalign   : run_kalign passes type/gpo/gpe/tgpe/nthreads to kalign_run unchanged
 *   h_c09_init_param   : option defaults mean "not given"
 * Library entry points called by run_kalign are replaced by recording stubs (assumed
 * contracts; the real ones are verified under their own contracts elsewhere). */
#include "kv.h"
#define main kalign_cli_main
#include "run_kalign.c"
#undef main
#include "parameters.c"
#include "stubs_msg.h"
#include "stubs_str.h"
#include "run_kalign.contracts.h"

/* ---- recording stubs ---- */
static char kv_dummy_msa;
int kalign_read_input(char* infile, struct msa** msa,int quiet)
{
        (void)infile; (void)quiet;
        if(kv_reads == kv_read_fail_at){ kv_reads++; return FAIL; }
        kv_reads++;
        *msa = (struct msa*)&kv_dummy_msa;
        return OK;
}
int kalign_run(struct msa *msa, int n_threads, int type, float gpo, float gpe, float tgpe)
{
        kv_run.called++;
        kv_run.msa = msa; kv_run.n_threads = n_threads; kv_run.type = type;
        kv_run.gpo = gpo; kv_run.gpe = gpe; kv_run.tgpe = tgpe;
        return kv_run_fails ? FAIL : OK;
}
int kalign_write_msa(struct msa *msa, char *outfile, char *format)
{
        (void)msa; (void)outfile; (void)format;
        kv_writes++;
        return kv_write_fails ? FAIL : OK;
}
void kalign_free_msa(struct msa* msa){ (void)msa; kv_frees++; }
#ifdef KV_CBMC
int isatty(int fd){ (void)fd; return nondet_int(); }
#endif

void h_c09_set_aln_type(void)
{
        char buf[16];
        int type = -77;
        int r;
        int use_null = kv_in_int();
        kv_word = kv_in_int();
        KV_ASSUME(0 <= kv_word && kv_word < 5);
        KV_ASSUME(use_null == 0 || use_null == 1);
        if(use_null){
                r = set_aln_type(NULL, &type);
                KV_CHECK(K_POST_SET_ALN_TYPE_NULL(r, type), "set_aln_type: no --type means undefined/auto");
        }else{
                strcpy(buf, kv_type_word[kv_word]);
                r = set_aln_type(buf, &type);
                KV_CHECK(K_POST_SET_ALN_TYPE_WORD(r, type, kv_word), "set_aln_type: documented word selects the type of that name");
        }
        KV_REACH();
}

void h_c09_run_kalign(void)
{
        struct parameters* param = init_param();
        char* files[3] = { "a", "b", "c" };
        int r;
        if(param == NULL){ return; }
        KV_CHECK(K_POST_INIT_PARAM(param), "init_param: defaults mean not-given");
        param->type = kv_in_int();
        param->gpo = kv_in_float();
        param->gpe = kv_in_float();
        param->tgpe = kv_in_float();
        param->nthreads = kv_in_int();
        param->num_infiles = kv_in_int();
        KV_ASSUME(param->num_infiles >= 1 && param->num_infiles <= 3);
        param->infile = files;
        kv_read_fail_at = kv_in_int();
        KV_ASSUME(kv_read_fail_at >= -1 && kv_read_fail_at < param->num_infiles);
        kv_run_fails = kv_in_int();
        kv_write_fails = kv_in_int();
        KV_ASSUME((kv_run_fails == 0 || kv_run_fails == 1) && (kv_write_fails == 0 || kv_write_fails == 1));
        kv_reads = 0; kv_writes = 0; kv_frees = 0; kv_run.called = 0;

        r = run_kalign(param);

        KV_CHECK(K_POST_RUN_KALIGN_ARGS(r, param), "run_kalign: options reach kalign_run unchanged");
        KV_CHECK(K_POST_RUN_KALIGN_STATUS(r), "run_kalign: FAIL iff a stage failed; msa released once");
        param->num_infiles = 0; /* infile[] is a harness array, not heap */
        free_parameters(param);
        KV_REACH();
}

#ifdef KV_NATIVE
int main(void)
{
#ifdef KV_ENTRY_set_aln_type
        h_c09_set_aln_type();
#else
        h_c09_run_kalign();
#endif
        return kv_failed ? 1 : 0;
}
#endif
