/* C04 / C17 / C01 (B): detect_aligned() on KV_NROWS rows (default 61: more than any fixed sampling window such as 50).
 * Family of inputs: every row is the row record A (KV_LA residues, symbolic gap vector) except possibly ONE row, at an
 * arbitrary position kv_h, which is the record B (KV_LB residues, symbolic gap vector); kv_g is an arbitrary A row.
 * (An unbounded version with a loop contract on the row loop was attempted: goto-instrument --dfcc aborts on
 * __CPROVER_array_set and CBMC cannot dereference constrained-but-unassigned pointers, see DESIGN.md.)
 * Contract (the data invariant kalign_run and kalign_msa_compare rely on):
 *   - status UNALIGNED only if no row has a gap;     - status ALIGNED iff some row has a gap and all rows have one width. */
#include "kv.h"
#include "tldevel.h"
#include "msa_struct.h"
#include "alphabet.h"

struct msa_seq* kv_rowA;
struct msa_seq* kv_rowB;
int kv_g, kv_h, kv_wA, kv_wB, kv_gapsA, kv_gapsB;

#include "msa_op.c"
#include "stubs_msg.h"
#include "msa_build.h"

#ifndef KV_LA
#define KV_LA 2
#endif
#ifndef KV_LB
#define KV_LB 1
#endif

static struct msa_seq* mk_row(int len, int symbolic, int* width, int* gapsum)
{
        struct msa_seq* s = kv_mk_seq_raw(len, len + 1);
        int j, sum = 0;
        for(j = 0; j <= len; j++){
                int g = 0;                         /* row record A is gap-free (concrete): 60 symbolic sums do not finish in 15 min */
                if(symbolic){ g = kv_in_int(); KV_ASSUME(g >= 0 && g <= 3); }
                s->gaps[j] = g;
                sum += g;
        }
        *width = len + sum;
        *gapsum = sum;
        return s;
}

void h_c04_detect_aligned(void)
{
        struct msa* m = malloc(sizeof(struct msa));
#ifndef KV_NROWS
#define KV_NROWS 61
#endif
        int n = KV_NROWS;
        int use_b, k;
        __CPROVER_assume(m != NULL);
        m->sequences = malloc(sizeof(struct msa_seq*) * (size_t)n);
        __CPROVER_assume(m->sequences != NULL);
        m->numseq = n; m->alloc_numseq = n; m->quiet = 1; m->aligned = 0;
        kv_rowA = mk_row(KV_LA, 0, &kv_wA, &kv_gapsA);
        kv_rowB = mk_row(KV_LB, 1, &kv_wB, &kv_gapsB);
        for(k = 0; k < KV_NROWS; k++){ m->sequences[k] = kv_rowA; }
        kv_g = kv_in_int();
        KV_ASSUME(0 <= kv_g && kv_g < n);
        use_b = kv_in_int();
        KV_ASSUME(use_b == 0 || use_b == 1);
        if(use_b){
                kv_h = kv_in_int();
                KV_ASSUME(0 <= kv_h && kv_h < n && kv_h != kv_g);
                m->sequences[kv_h] = kv_rowB;
        }else{
                /* all rows are A: make B a copy of A's profile so that the B clauses say nothing new */
                kv_h = n;           /* no such row */
                kv_wB = kv_wA; kv_gapsB = kv_gapsA;
                kv_rowB = kv_rowA;
        }
        detect_aligned(m);
        KV_CHECK(m->aligned == ALN_STATUS_UNALIGNED || m->aligned == ALN_STATUS_ALIGNED || m->aligned == ALN_STATUS_UNKNOWN, "detect_aligned: status is one of the three constants");
        KV_CHECK(m->aligned != ALN_STATUS_UNALIGNED || (kv_gapsA == 0 && kv_gapsB == 0), "detect_aligned: UNALIGNED only if no row has a gap");
        KV_CHECK(m->aligned != ALN_STATUS_ALIGNED || kv_wA == kv_wB, "detect_aligned: ALIGNED only if all rows have one width");
        KV_CHECK(!((kv_gapsA != 0 || kv_gapsB != 0) && kv_wA == kv_wB) || m->aligned == ALN_STATUS_ALIGNED, "detect_aligned: a gap somewhere and one common width => ALIGNED");
        KV_REACH();
}
#ifdef KV_NATIVE
int main(void){ h_c04_detect_aligned(); return kv_failed ? 1 : 0; }
#endif
