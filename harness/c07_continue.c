/* C07 (P, loop-free): aln_continue() -- the Hirschberg split for each of the transition codes, with the recursive calls
 * replaced by the contract of contracts/aln_controller.contracts.h (goto-instrument --dfcc --replace-call-with-contract).
 * Symbolic: transition code, meeting column, the block (old_cor), the boundary states handed down, the serial flag.   */
#include "kv.h"
#include "tldevel.h"
#include "aln_struct.h"
#include "aln_param.h"
#include "aln_controller.contracts.h"
#include "aln_controller.c"
#include "stubs_msg.h"

#define KV_PATHLEN 12
void h_c07_continue(void)
{
        struct aln_mem m;
        struct states f0[1], b0[1];
        int path[KV_PATHLEN], path0[KV_PATHLEN];
        float in[6];
        int old_cor[5];
        int transition = kv_in_int(), meet = kv_in_int(), serial = kv_in_int();
        int from, to, rf, cf, rt, ct, i;
        static const int code_from[8] = { -1, 0, 0, 0, -1, 1, 2, 2 };   /* 0 = a, 1 = ga, 2 = gb ; codes 1,2,3,5,6,7 */
        static const int code_to[8]   = { -1, 0, 1, 2, -1, 0, 2, 0 };
        KV_ASSUME(transition == 1 || transition == 2 || transition == 3 || transition == 5 || transition == 6 || transition == 7);
        KV_ASSUME(serial == 0 || serial == 1);
        for(i = 0; i < 5; i++){ old_cor[i] = kv_in_int(); }
        /* a block with a middle row inside it and a meeting column inside the block; small enough for the path buffer */
        KV_ASSUME(0 <= old_cor[0] && old_cor[0] < old_cor[4] && old_cor[4] < old_cor[1] && old_cor[1] < KV_PATHLEN - 2);
        KV_ASSUME(0 <= old_cor[2] && old_cor[2] <= meet && meet <= old_cor[3] && old_cor[3] < 1000);
        for(i = 0; i < 6; i++){ in[i] = kv_in_float(); }
        for(i = 0; i < KV_PATHLEN; i++){ path[i] = kv_in_int(); path0[i] = path[i]; }
        f0[0].a = 1.0f; f0[0].ga = 2.0f; f0[0].gb = 3.0f; b0[0] = f0[0];
        m.f = f0; m.b = b0; m.path = path; m.tmp_path = NULL; m.ap = NULL; m.seq1 = NULL; m.seq2 = NULL; m.prof1 = NULL; m.prof2 = NULL;
        m.starta = -1; m.enda = -1; m.startb = -1; m.endb = -1; m.len_a = 0; m.len_b = 0; m.mode = ALN_MODE_FULL; m.run_parallel = 0;

        from = code_from[transition]; to = code_to[transition];
        rf = (from != 1); cf = (from != 2); rt = (to != 1); ct = (to != 2);
        /* first sub-problem */
        kv_exp_starta[0] = old_cor[0]; kv_exp_enda[0] = old_cor[4] - rf;
        kv_exp_startb[0] = old_cor[2]; kv_exp_endb[0] = meet - cf;
        kv_exp_f[0][0] = in[0]; kv_exp_f[0][1] = in[1]; kv_exp_f[0][2] = in[2];
        kv_exp_b[0][0] = (from == 0) ? 0.0f : -FLT_MAX; kv_exp_b[0][1] = (from == 1) ? 0.0f : -FLT_MAX; kv_exp_b[0][2] = (from == 2) ? 0.0f : -FLT_MAX;
        /* second sub-problem */
        kv_exp_starta[1] = old_cor[4] + rt; kv_exp_enda[1] = old_cor[1];
        kv_exp_startb[1] = meet + ct; kv_exp_endb[1] = old_cor[3];
        kv_exp_f[1][0] = (to == 0) ? 0.0f : -FLT_MAX; kv_exp_f[1][1] = (to == 1) ? 0.0f : -FLT_MAX; kv_exp_f[1][2] = (to == 2) ? 0.0f : -FLT_MAX;
        kv_exp_b[1][0] = in[3]; kv_exp_b[1][1] = in[4]; kv_exp_b[1][2] = in[5];
        kv_exp_serial[0] = serial; kv_exp_serial[1] = serial;
        kv_ncalls = 0;

        aln_continue(&m, in, old_cor, meet, transition, (uint8_t)serial);

        KV_CHECK(kv_ncalls == 2, "aln_continue recurses exactly twice (first and second sub-problem, in this order)");
        for(i = 0; i < KV_PATHLEN; i++){
                if(i == old_cor[4] && from == 0){ KV_CHECK(path[i] == meet, "the residue on the middle row is paired with the meeting column when the transition starts in state a"); }
                else if(i == old_cor[4] + 1 && to == 0){ KV_CHECK(path[i] == meet + 1, "the next residue is paired with the next column when the transition ends in state a"); }
                else{ KV_CHECK(path[i] == path0[i], "no other path cell is written"); }
        }
        KV_REACH();
}
