/* C11 (B): bpm_block() (blocked Myers kernel, the production distance routine) and bpm() against Sellers'
 * recurrence on concrete sizes (KV_M pattern symbols, KV_N text symbols, KV_M <= KV_N) with symbolic contents over
 * KV_SIGMA symbols.  Reference: the full dynamic-programming matrix, written from the definition:
 *    D[0][j] = 0, D[r][0] = r, D[r][j] = min(D[r-1][j-1] + (p[r-1] != t[j-1]), D[r][j-1] + 1, D[r-1][j] + 1),
 *    answer = min_j D[min(m,1024)][j].                                                                          */
#include "kv.h"
#include "bpm.c"
#include "stubs_msg.h"

#ifndef KV_M
#define KV_M 3
#endif
#ifndef KV_N
#define KV_N 4
#endif
#ifndef KV_SIGMA
#define KV_SIGMA 3
#endif

static uint8_t T[KV_N + 1], P[KV_M + 1];
static int prev[KV_M + 1], cur[KV_M + 1];
static uint8_t kv_code[KV_SIGMA];

static int ref_min_distance(void)
{
        int r, j, best;
        for(r = 0; r <= KV_M; r++){ prev[r] = r; }
        best = prev[KV_M];
        for(j = 1; j <= KV_N; j++){
                cur[0] = 0;
                for(r = 1; r <= KV_M; r++){
                        int v = prev[r-1] + (P[r-1] != T[j-1] ? 1 : 0);
                        if(prev[r] + 1 < v){ v = prev[r] + 1; }
                        if(cur[r-1] + 1 < v){ v = cur[r-1] + 1; }
                        cur[r] = v;
                }
                for(r = 0; r <= KV_M; r++){ prev[r] = cur[r]; }
                if(prev[KV_M] < best){ best = prev[KV_M]; }
        }
        return best;
}

void h_c11_bpm_block(void)
{
        int i, ref, got;
#ifndef KV_FREE
#define KV_FREE 100000
#endif
        /* the last KV_FREE symbols of text and pattern are symbolic, the others are the fixed symbol 1
           (large shapes: a fully symbolic 64x64 problem does not finish) */
        /* the KV_SIGMA abstract symbols stand for ANY KV_SIGMA pairwise different codes of the 13-symbol alphabet (a symbolic
           injective renaming): every string with at most KV_SIGMA different symbols is covered, whichever codes it uses --
           in particular the last code, 12 (X / N).  (Added after seed C12_d: with the codes fixed to 0..KV_SIGMA-1 a Peq
           table that leaves out code 12 passed every shape.) */
        {
                int k, l;
#ifdef KV_FIXCODES
                /* long shapes: the renaming is concrete (symbolic codes make m64_n64 run 380 s instead of 50 s); it still
                   contains the last code of the alphabet */
                static const uint8_t fix[KV_SIGMA] = KV_FIXCODES;
                for(k = 0; k < KV_SIGMA; k++){ kv_code[k] = fix[k]; }
                (void)l;
#else
                for(k = 0; k < KV_SIGMA; k++){
                        kv_code[k] = kv_in_u8(); KV_ASSUME(kv_code[k] < 13);
                        for(l = 0; l < k; l++){ KV_ASSUME(kv_code[k] != kv_code[l]); }
                }
#endif
        }
        for(i = 0; i < KV_N; i++){ if(i >= KV_N - KV_FREE){ uint8_t y = kv_in_u8(); KV_ASSUME(y < KV_SIGMA); T[i] = kv_code[y]; }else{ T[i] = kv_code[1 % KV_SIGMA]; } }
        for(i = 0; i < KV_M; i++){ if(i >= KV_M - KV_FREE){ uint8_t y = kv_in_u8(); KV_ASSUME(y < KV_SIGMA); P[i] = kv_code[y]; }else{ P[i] = kv_code[1 % KV_SIGMA]; } }
        ref = ref_min_distance();
        got = bpm_block(T, P, KV_N, KV_M);
        KV_CHECK(got == ref, "bpm_block == minimum over all text positions of the edit distance to the pattern");
#if KV_M <= 63
        {
                int got1 = bpm(T, P, KV_N, KV_M);
                KV_CHECK(got1 == ref, "bpm (single word) == the same minimum");
        }
#endif
        KV_REACH();
}
#ifdef KV_NATIVE
int main(void){ h_c11_bpm_block(); return kv_failed ? 1 : 0; }
#endif
