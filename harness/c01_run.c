/* C01 / C04 / C16 (B): the protocol of kalign_run() end to end on small inputs, with the REAL
 *   kalign_run, kalign_essential_input_check, dealign_msa, msa_sort_len_name (+ sort_by_len_name),
 *   finalise_alignment, make_linear_sequence, msa_sort_rank (+ sort_by_rank), kalign_msa_to_arr
 * and the heavy stages abstracted by their contracts as stubs:
 *   build_tree_kmeans / create_msa_tree : REQUIRE that every gap count is zero when they start (C04: aligned
 *       input is re-aligned from scratch), create_msa_tree ENSURES a well-formed alignment (every row
 *       len + sum(gaps) == one common width, no all-gap column) -- what C01.weave establishes per merge;
 *   convert_msa_to_internal, aln_param_init/free, alloc_tasks/free_tasks : frame-only stubs.
 *
 * Contract of kalign_run (C01): on OK the msa is FINAL, holds exactly the non-empty input sequences in input
 * order under their input names, every row has length alnlen, deleting '-' from a row gives the input
 * residues (same bytes, same case), and only '-' was added.                                                  */
#include "kv.h"
#include "tldevel.h"
#include "msa_struct.h"
#include "alphabet.h"
#include "aln_param.h"
#include "task.h"
#include "kalign/kalign.h"
/* kalign_run() calls the stub below instead of the real convert_msa_to_internal (own contract query C05.convert_msa_to_internal) */
#define convert_msa_to_internal kv_stub_convert_msa_to_internal
#include "msa_op.h"
#include "aln_wrap.c"
#undef convert_msa_to_internal
#include "stubs_msg.h"
#include "stubs_qsort.h"
#include "msa_build.h"

#ifndef KV_N
#define KV_N 3
#endif
#ifndef KV_LENS
#define KV_LENS {2,0,1}
#endif
#define KV_MAXLEN 3
#define KV_MAXGAP 2
#define KV_MAXW (KV_MAXLEN + KV_MAXGAP * (KV_MAXLEN + 1))

static const int kv_len[KV_N] = KV_LENS;
static char in_res[KV_N][KV_MAXLEN + 1];
static char in_name[KV_N][4];
static int kv_tree_calls, kv_aln_calls;

/* ---------------- stubs = assumed contracts of the stages not under test here ---------------- */
ESL_STOPWATCH* esl_stopwatch_Create(void){ ESL_STOPWATCH* w = malloc(1); __CPROVER_assume(w != NULL); return w; }
void esl_stopwatch_Destroy(ESL_STOPWATCH* w){ free(w); }
int esl_stopwatch_Start(ESL_STOPWATCH* w){ (void)w; return 0; }
int esl_stopwatch_Stop(ESL_STOPWATCH* w){ (void)w; return 0; }
int tl_stopwatch_Display(ESL_STOPWATCH* w){ (void)w; return 0; }

int kv_stub_convert_msa_to_internal(struct msa* msa, int type){ msa->L = (uint8_t)type; return OK; }
int alloc_tasks(struct aln_tasks** tasks,int numseq){ (void)numseq; *tasks = NULL; return OK; }
void free_tasks(struct aln_tasks* tasks){ (void)tasks; }
int aln_param_init(struct aln_param **aln_param,int biotype , int n_threads, int type, float gpo, float gpe, float tgpe)
{ (void)biotype; (void)n_threads; (void)type; (void)gpo; (void)gpe; (void)tgpe; *aln_param = NULL; return OK; }
void aln_param_free(struct aln_param* ap){ (void)ap; }

static void kv_require_dealigned(struct msa* msa, const char* who)
{
        int i, j;
        (void)who;
        for(i = 0; i < msa->numseq; i++){
                for(j = 0; j <= msa->sequences[i]->len; j++){
                        KV_CHECK(msa->sequences[i]->gaps[j] == 0, "precondition of the aligner: every gap count is zero (input was de-aligned)");
                }
                KV_CHECK(msa->sequences[i]->len > 0, "precondition of the aligner: no empty sequence");
        }
        KV_CHECK(msa->numseq >= 2, "precondition of the aligner: at least two sequences");
}
int build_tree_kmeans(struct msa* msa, struct aln_tasks** tasks)
{
        (void)tasks;
        kv_tree_calls++;
        kv_require_dealigned(msa, "build_tree_kmeans");
        return OK;
}
int create_msa_tree(struct msa* msa, struct aln_param* ap,struct aln_tasks* t)
{
        int i, j, w = -1;
        (void)ap; (void)t;
        kv_aln_calls++;
        kv_require_dealigned(msa, "create_msa_tree");
        /* ensures: some well-formed alignment */
        for(i = 0; i < msa->numseq; i++){
                int sum = 0;
                for(j = 0; j <= msa->sequences[i]->len; j++){
                        int g = kv_in_int();
                        KV_ASSUME(g >= 0 && g <= KV_MAXGAP);
                        msa->sequences[i]->gaps[j] = g;
                        sum += g;
                }
                if(w < 0){ w = msa->sequences[i]->len + sum; }
                KV_ASSUME(msa->sequences[i]->len + sum == w);
        }
#ifdef KV_W
        KV_ASSUME(w == KV_W);   /* case split on the alignment width */
#endif
        return OK;
}

#ifndef KV_SPARE
#define KV_SPARE 0
#endif
void h_c01_run(void)
{
#ifdef KV_LIFECYCLE
        /* C16 / C05 (leak on the success path): the msa is shaped like one a reader hands out -- KV_SPARE pre-allocated, unused
           records behind the KV_N used ones (alloc_msa allocates every slot) and the member lists of the real set_sip_nsip --
           and is released with the real kalign_free_msa at the end; the query runs with CBMC's memory-leak check */
        struct msa* msa = kv_mk_msa_raw(KV_N + KV_SPARE);
#else
        struct msa* msa = kv_mk_msa_raw(KV_N);
#endif
        int i, j, k, rc, expect_n = 0, status;
        char** arr = NULL;
        int arr_len = -1;
        status = kv_in_int();
        KV_ASSUME(status == ALN_STATUS_UNALIGNED || status == ALN_STATUS_ALIGNED || status == ALN_STATUS_UNKNOWN);
        for(i = 0; i < KV_N; i++){
                msa->sequences[i] = kv_mk_seq_raw(kv_len[i], KV_MAXLEN + 1);
                for(j = 0; j < kv_len[i]; j++){
                        unsigned char c = kv_in_u8();
                        KV_ASSUME(c == 'A' || c == 'a' || c == 'C' || c == 'g' || c == 'T');
                        in_res[i][j] = (char)c;
                        msa->sequences[i]->seq[j] = (char)c;
                }
                in_res[i][kv_len[i]] = 0;
                msa->sequences[i]->seq[kv_len[i]] = 0;
                for(j = 0; j <= KV_MAXLEN + 1; j++){ msa->sequences[i]->gaps[j] = 0; }
                for(j = 0; j <= kv_len[i]; j++){
                        int g = kv_in_int();
                        KV_ASSUME(g >= 0 && g <= KV_MAXGAP);
                        /* data invariant of detect_aligned: status UNALIGNED only if there is no gap anywhere */
                        KV_ASSUME(status != ALN_STATUS_UNALIGNED || g == 0);
                        msa->sequences[i]->gaps[j] = g;
                }
                /* names: 'n' + a symbolic letter + index -> pairwise distinct, order between names symbolic */
                {
                        unsigned char nc = kv_in_u8();
                        KV_ASSUME(nc == 'x' || nc == 'y');
                        in_name[i][0] = 'n'; in_name[i][1] = (char)nc; in_name[i][2] = (char)('0' + i); in_name[i][3] = 0;
                }
                for(j = 0; j < 4; j++){ msa->sequences[i]->name[j] = in_name[i][j]; }
                msa->sequences[i]->rank = kv_in_int();           /* whatever was there before */
                if(kv_len[i] > 0){ expect_n++; }
        }
#ifdef KV_LIFECYCLE
        msa->numseq = KV_N;
        for(i = KV_N; i < KV_N + KV_SPARE; i++){
                msa->sequences[i] = kv_mk_seq_raw(0, KV_MAXLEN + 1);
                for(j = 0; j <= KV_MAXLEN + 1; j++){ msa->sequences[i]->gaps[j] = 0; }
        }
        rc = set_sip_nsip(msa);
        KV_ASSUME(rc == OK);
#endif
        msa->aligned = status;
        msa->biotype = kv_in_u8();
        KV_ASSUME(msa->biotype == ALN_BIOTYPE_DNA || msa->biotype == ALN_BIOTYPE_PROTEIN);
        kv_tree_calls = 0; kv_aln_calls = 0;

        rc = kalign_run(msa, 1, KALIGN_TYPE_UNDEFINED, -1.0f, -1.0f, -1.0f);

        if(expect_n < 2){
                KV_CHECK(rc != OK, "fewer than two non-empty sequences: failure is reported");
        }else{
                KV_CHECK(rc == OK, "kalign_run succeeds on >= 2 non-empty sequences");
        }
        if(rc == OK){
                KV_CHECK(kv_tree_calls == 1 && kv_aln_calls == 1, "tree and alignment stages run exactly once");
                KV_CHECK(msa->aligned == ALN_STATUS_FINAL, "status FINAL");
                KV_CHECK(msa->numseq == expect_n, "one row per non-empty input sequence");
                k = 0;
                for(i = 0; i < KV_N; i++){
                        int f = 0;
                        struct msa_seq* s;
                        if(kv_len[i] == 0){ continue; }
                        s = msa->sequences[k];
                        /* input order and input name */
                        for(j = 0; j < 4; j++){ KV_CHECK(s->name[j] == in_name[i][j], "rows are in input order under the input name"); }
                        /* row: alnlen bytes, NUL terminated, degapped == input residues, only '-' added */
                        for(j = 0; j < KV_MAXW; j++){
                                if(j < msa->alnlen){
                                        char c = s->seq[j];
                                        if(c == '-'){ continue; }
                                        KV_CHECK(f < kv_len[i] && c == in_res[i][f], "deleting '-' gives back the input residues exactly (letters, case, order)");
                                        f++;
                                }
                        }
                        KV_CHECK(f == kv_len[i], "no residue lost");
                        KV_CHECK(msa->alnlen <= KV_MAXW && s->seq[msa->alnlen] == 0, "row has exactly alnlen bytes");
                        k++;
                }
                /* array export */
                rc = kalign_msa_to_arr(msa, &arr, &arr_len);
                KV_CHECK(rc == OK && arr_len == msa->alnlen, "kalign_msa_to_arr: width");
                for(i = 0; i < msa->numseq; i++){
                        for(j = 0; j <= KV_MAXW; j++){
                                if(j <= msa->alnlen){ KV_CHECK(arr[i][j] == msa->sequences[i]->seq[j], "kalign_msa_to_arr: rows equal the msa rows"); }
                        }
                }
        }
#ifdef KV_LIFECYCLE
        if(arr){
                for(i = 0; i < msa->numseq; i++){ free(arr[i]); }
                free(arr);
        }
        kalign_free_msa(msa);          /* after this nothing the library (or the harness) allocated may remain: --memory-leak-check */
#endif
        KV_REACH();
}
#ifdef KV_NATIVE
int main(void){ h_c01_run(); return kv_failed ? 1 : 0; }
#endif
