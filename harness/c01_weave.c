/* C01 / C10 (B): one progressive merge through the REAL do_align(), add_gap_info_to_path_n(),
 * mirror_path_n(), make_seq(), update_gaps(), init_alnmem(), alloc_aln_mem().
 *
 * Shape (concrete): KV_NA / KV_NB members in the two groups, KV_PLA / KV_PLB their alignment widths.
 * Symbolic: member lengths and gap vectors (any well-formed group without all-gap column), and the
 * DP result: aln_runner() is replaced by a stub that writes ANY alignment the three-state DP can return
 * (columns M / GA / GB consuming both operands, no GA next to GB) into m->path.
 * The float profile routines (make_profile_n, set_gap_penalties_n, update_n) are frame-only stubs.
 *
 * Contract of the merge (from C01 / C10):
 *   K1  every member of the merged node has  len + sum(gaps) == plen[c]          (rows have one length)
 *   K2  no column of the merged node is a gap in every member                      (no all-gap column)
 *   K3  for any two residues of members of ONE input group their column order and column equality
 *       are unchanged                                                              (C10: only whole gap columns inserted)
 *   K4  sip[c] is sip[a] reversed followed by sip[b] reversed, nsip[c] = nsip[a]+nsip[b]
 *   K5  residues are not touched (seq, s, len unchanged), only '-' columns are added (gaps never decrease)
 */
#include "kv.h"
#include "tldevel.h"
#include "msa_struct.h"
#include "aln_struct.h"
#include "aln_param.h"
#include "aln_mem.h"

/* the float profile routines of aln_setup.c are renamed away; do_align() (aln_run.c) gets the stubs below */
#define make_profile_n kvreal_make_profile_n
#define set_gap_penalties_n kvreal_set_gap_penalties_n
#define update_n kvreal_update_n
#include "aln_setup.c"
#undef make_profile_n
#undef set_gap_penalties_n
#undef update_n
#include "aln_run.c"
#include "stubs_msg.h"
#include "msa_build.h"

#ifndef KV_NA
#define KV_NA 2
#endif
#ifndef KV_NB
#define KV_NB 1
#endif
#ifndef KV_PLA
#define KV_PLA 2
#endif
#ifndef KV_PLB
#define KV_PLB 2
#endif
#define KV_NS (KV_NA + KV_NB)
#define KV_MAXL (KV_PLA + KV_PLB)

/* ---- frame-only stubs (assumed contracts: they touch nothing but the profile buffers) ---- */
int make_profile_n(struct aln_param* ap,const uint8_t* seq,const int len, float** p)
{
        (void)ap; (void)seq; (void)len;
        *p = malloc(sizeof(float));
        __CPROVER_assume(*p != NULL);
        return OK;
}
int set_gap_penalties_n(float* prof,int len,int nsip){ (void)prof; (void)len; (void)nsip; return OK; }
int update_n(const float* profa, const float* profb,float* newp, struct aln_param*ap, int* path,int sipa,int sipb)
{ (void)profa; (void)profb; (void)newp; (void)ap; (void)path; (void)sipa; (void)sipb; return OK; }

/* ---- the DP, abstracted by its contract: any monotone partial matching of 1..len_a into 1..len_b ---- */
int aln_runner(struct aln_mem* m)
{
        /* assumed contract ALN-1 of the DP (components checked under C07): the result is a sequence of columns
           M (pair), GA (residue of b alone), GB (residue of a alone) that consumes both operands exactly and never
           puts a GA column next to a GB column (the three-state recurrence has no ga<->gb transition);
           m->path[i] = partner of a_i, or -1 */
        int ia = 0, ib = 0, prev = 0, step;
        for(step = 0; step < KV_MAXL; step++){
                int op;
                if(ia == m->len_a && ib == m->len_b){ break; }
                op = kv_in_int();
                KV_ASSUME(op == 0 || op == 1 || op == 2);
                KV_ASSUME(!(prev == 1 && op == 2) && !(prev == 2 && op == 1));
                if(op == 0){
                        KV_ASSUME(ia < m->len_a && ib < m->len_b);
                        ia++; ib++;
                        m->path[ia] = ib;
                }else if(op == 1){
                        KV_ASSUME(ib < m->len_b);
                        ib++;
                }else{
                        KV_ASSUME(ia < m->len_a);
                        ia++;
                        m->path[ia] = -1;
                }
                prev = op;
        }
        KV_ASSUME(ia == m->len_a && ib == m->len_b);
        return OK;
}
int aln_runner_serial(struct aln_mem* m){ return aln_runner(m); }
/* other externals of aln_run.c that do_align() does not reach */
int sort_tasks(struct aln_tasks* t, int order){ (void)t; (void)order; return OK; }

/* ---- spec helpers: column of the k-th residue of a sequence ---- */
static int col_of(const int* gaps, int k)
{
        int i, c = 0;
        for(i = 0; i <= k; i++){ c += gaps[i]; }
        return c + k;
}
static int sgn(int x){ return (x > 0) - (x < 0); }

static int oldgaps[KV_NS][KV_MAXL + 2];
static int oldlen[KV_NS];

void h_c01_weave(void)
{
        struct msa* msa = kv_mk_msa_raw(KV_NS);
        struct aln_tasks t;
        struct task tk;
        struct task* tlist[1];
        float* profiles[2 * KV_NS + 2];
        struct aln_mem* m = NULL;
        struct aln_param ap;
        int a, b, c, i, j, k, l, col, rc, L;
        int grp[KV_NS];

        /* --- sequences: members 0..NA-1 form group a, NA..NS-1 group b --- */
        for(i = 0; i < KV_NS; i++){
                int pl = (i < KV_NA) ? KV_PLA : KV_PLB;
                int n = (i < KV_NA) ? KV_NA : KV_NB;
                int len, sum = 0;
                grp[i] = (i < KV_NA) ? 0 : 1;
                if(n == 1){ len = pl; }
                else{
                        /* member lengths are part of the concrete shape (KV_LENS = {..}); symbolic only if not given */
#ifdef KV_LENS
                        static const int kv_lens[] = KV_LENS;
                        len = kv_lens[i];
#else
                        len = kv_in_int(); KV_ASSUME(len >= 1 && len <= pl);
#endif
                }
                msa->sequences[i] = kv_mk_seq_raw(len, KV_MAXL + 2);
                for(j = 0; j <= KV_MAXL + 1; j++){ msa->sequences[i]->gaps[j] = 0; }
                for(j = 0; j <= len; j++){
                        int g = 0;
                        if(n > 1){ g = kv_in_int(); KV_ASSUME(g >= 0 && g <= pl); }
                        msa->sequences[i]->gaps[j] = g;
                        sum += g;
                }
                KV_ASSUME(len + sum == pl);                     /* wf_group: row length == plen */
                for(j = 0; j < len; j++){ msa->sequences[i]->seq[j] = 'A'; msa->sequences[i]->s[j] = 0; }
                msa->sequences[i]->seq[len] = 0;
                oldlen[i] = len;
                for(j = 0; j <= KV_MAXL + 1; j++){ oldgaps[i][j] = msa->sequences[i]->gaps[j]; }
        }
        /* premise (C01 invariant of completed groups): no all-gap column inside a group */
        for(l = 0; l < 2; l++){
                int pl = l ? KV_PLB : KV_PLA;
                for(col = 0; col < pl; col++){
                        int occ = 0;
                        for(i = 0; i < KV_NS; i++){
                                if(grp[i] == l){
                                        for(k = 0; k < oldlen[i]; k++){ if(col_of(oldgaps[i], k) == col){ occ = 1; } }
                                }
                        }
                        KV_ASSUME(occ);
                }
        }
        /* --- tree bookkeeping --- */
        msa->num_profiles = 2 * KV_NS - 1 + 3;
        msa->sip = malloc(sizeof(int*) * (size_t)msa->num_profiles);
        msa->nsip = malloc(sizeof(int) * (size_t)msa->num_profiles);
        msa->plen = malloc(sizeof(int) * (size_t)msa->num_profiles);
        __CPROVER_assume(msa->sip && msa->nsip && msa->plen);
        for(i = 0; i < msa->num_profiles; i++){ msa->sip[i] = NULL; msa->nsip[i] = 0; msa->plen[i] = 0; }
        for(i = 0; i < KV_NS; i++){
                msa->sip[i] = malloc(sizeof(int)); __CPROVER_assume(msa->sip[i] != NULL);
                msa->sip[i][0] = i; msa->nsip[i] = 1;
        }
        a = (KV_NA == 1) ? 0 : KV_NS;
        b = (KV_NB == 1) ? KV_NA : KV_NS + 1;
        c = KV_NS + 2;
        if(KV_NA > 1){
                msa->sip[a] = malloc(sizeof(int) * KV_NA); __CPROVER_assume(msa->sip[a] != NULL);
                for(i = 0; i < KV_NA; i++){ msa->sip[a][i] = i; }
                msa->nsip[a] = KV_NA; msa->plen[a] = KV_PLA;
        }
        if(KV_NB > 1){
                msa->sip[b] = malloc(sizeof(int) * KV_NB); __CPROVER_assume(msa->sip[b] != NULL);
                for(i = 0; i < KV_NB; i++){ msa->sip[b][i] = KV_NA + i; }
                msa->nsip[b] = KV_NB; msa->plen[b] = KV_PLB;
        }
        tk.a = a; tk.b = b; tk.c = c; tk.p = 0; tk.n = 0; tk.score = 0.0f;
        tlist[0] = &tk;
        t.list = tlist; t.profile = profiles; t.n_tasks = 2; t.n_alloc_tasks = 2;
        for(i = 0; i < 2 * KV_NS + 2; i++){ profiles[i] = NULL; }
        if(KV_NA > 1){ profiles[a] = malloc(sizeof(float)); __CPROVER_assume(profiles[a] != NULL); }
        if(KV_NB > 1){ profiles[b] = malloc(sizeof(float)); __CPROVER_assume(profiles[b] != NULL); }
        ap.nthreads = 1; ap.subm = NULL; ap.gpo = 0; ap.gpe = 0; ap.tgpe = 0; ap.score = 0;

        rc = alloc_aln_mem(&m, KV_MAXL + 3);   /* recursive_aln() passes 256; any size >= 1 is legal, buffers are grown by resize_aln_mem */
        KV_ASSUME(rc == OK);
        m->ap = &ap;
        m->mode = ALN_MODE_FULL;

        rc = do_align(msa, &t, m, 0);

        KV_CHECK(rc == OK, "do_align returns OK");
        L = msa->plen[c];
        /* K4 member list */
        KV_CHECK(msa->nsip[c] == KV_NS, "K4 nsip[c] == nsip[a] + nsip[b]");
        for(i = 0; i < KV_NA; i++){ KV_CHECK(msa->sip[c][i] == KV_NA - 1 - i, "K4 sip[c] starts with sip[a] reversed"); }
        for(i = 0; i < KV_NB; i++){ KV_CHECK(msa->sip[c][KV_NA + i] == KV_NA + KV_NB - 1 - i, "K4 sip[c] continues with sip[b] reversed"); }
        /* K1 / K5 */
        KV_CHECK(L >= KV_PLA && L >= KV_PLB && L <= KV_PLA + KV_PLB, "K1 merged width between max(plen) and plen_a+plen_b");
        for(i = 0; i < KV_NS; i++){
                int sum = 0;
                KV_CHECK(msa->sequences[i]->len == oldlen[i], "K5 len unchanged");
                for(j = 0; j <= oldlen[i]; j++){
                        KV_CHECK(msa->sequences[i]->gaps[j] >= oldgaps[i][j], "K5 gap counts never decrease");
                        sum += msa->sequences[i]->gaps[j];
                }
                KV_CHECK(oldlen[i] + sum == L, "K1 len + sum(gaps) == plen[c] for every member");
        }
#ifndef KV_NOK3
        /* K3 projection: order and equality of columns inside each input group preserved */
        for(i = 0; i < KV_NS; i++){
                for(j = 0; j < KV_NS; j++){
                        if(grp[i] != grp[j]){ continue; }
                        for(k = 0; k < oldlen[i]; k++){
                                for(l = 0; l < oldlen[j]; l++){
                                        KV_CHECK(sgn(col_of(oldgaps[i], k) - col_of(oldgaps[j], l)) ==
                                                 sgn(col_of(msa->sequences[i]->gaps, k) - col_of(msa->sequences[j]->gaps, l)),
                                                 "K3 residues of one group keep their column order / stay in one column");
                                }
                        }
                }
        }
#endif
#ifndef KV_NOK2
        /* K2 no all-gap column */
        for(col = 0; col < KV_MAXL; col++){
                if(col < L){
                        int occ = 0;
                        for(i = 0; i < KV_NS; i++){
                                for(k = 0; k < oldlen[i]; k++){ if(col_of(msa->sequences[i]->gaps, k) == col){ occ = 1; } }
                        }
                        KV_CHECK(occ, "K2 no column of the merged node is all gaps");
                }
        }
#endif
        KV_REACH();
}
#ifdef KV_NATIVE
int main(void){ h_c01_weave(); return kv_failed ? 1 : 0; }
#endif
