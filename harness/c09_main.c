/* C09 / C04 / C05 (B: at most two options and two positional files per command line): main() of the CLI from the option
 * loop to the library calls, with the real run_kalign, set_aln_type, init_param, check_msa_format_string in between.
 * getopt_long_only is a stub that delivers KV_NOPT symbolic option codes (every code of the option table that does not
 * end the program early) with distinct argument strings; atof / atoi are stubs that return a symbolic value per argument
 * string; isatty is symbolic; the library entry points are recording stubs.
 * Contract, from C09 / C04 / C05:
 *   --gpo / --gpe / --tgpe: the value given reaches kalign_run in ITS parameter, bit for bit; a penalty that was not given
 *     arrives as -1 ("not given"); each of the three can be set on its own and the last occurrence wins;
 *   --type <word> / no --type: the type of that name / undefined; -n: the thread count given; -f, -o reach kalign_write_msa;
 *   inputs are read in the order: standard input (when it is not a terminal), the -i file, the positional files in
 *     command-line order -- every one exactly once (C04: several input files or standard input);
 *   the exit status is EXIT_SUCCESS exactly when the run succeeded (C05).                                              */
#include <stdio.h>
#include <getopt.h>
#include "kv.h"

#ifndef KV_NOPT
#define KV_NOPT 2
#endif
#ifndef KV_NPOS
#define KV_NPOS 2
#endif

static char kv_arg[KV_NOPT][8];            /* argument string of option k */
static float kv_fval[KV_NOPT];             /* what atof() yields for it */
static int kv_ival[KV_NOPT];               /* what atoi() yields for it */
static int kv_code[KV_NOPT];
static int kv_getopt_calls;
static int kv_npos, kv_argc;
static int kv_tty;
static int kv_arg_index(const char* s)
{
        int k;
        for(k = 0; k < KV_NOPT; k++){ if(s == kv_arg[k]){ return k; } }
        return -1;
}
double kv_atof(const char* s){ int k = kv_arg_index(s); return k < 0 ? 0.0 : (double)kv_fval[k]; }
int kv_atoi(const char* s){ int k = kv_arg_index(s); return k < 0 ? 0 : kv_ival[k]; }
#ifdef KV_CBMC
char* optarg;
int optind;
#endif
int kv_getopt(int argc, char* const* argv, const char* s, const struct option* lo, int* idx)
{
        int k = kv_getopt_calls;
        (void)argc; (void)argv; (void)s; (void)lo; (void)idx;
        kv_getopt_calls++;
        if(k < KV_NOPT){ optarg = kv_arg[k]; return kv_code[k]; }
        optarg = NULL;
        optind = kv_argc - kv_npos;
        return -1;
}
#define getopt_long_only kv_getopt
#define atof kv_atof
#define atoi kv_atoi
#define isatty(fd) (kv_tty)
#define fileno(f) (0)
#define main kalign_cli_main
#include "run_kalign.c"
#undef main
#include "parameters.c"
#undef getopt_long_only
#undef atof
#undef atoi
#include "stubs_msg.h"
#include "stubs_str.h"

/* ---- recording stubs for the library entry points ---- */
static char kv_dummy_msa;
static char* kv_read_file[8];
static int kv_reads, kv_read_fail_at, kv_run_fails, kv_write_fails, kv_writes, kv_frees;
static struct { int called; int n_threads; int type; float gpo, gpe, tgpe; } kv_run;
static char* kv_w_outfile; static char* kv_w_format;
int kalign_read_input(char* infile, struct msa** msa,int quiet)
{
        (void)quiet;
        if(kv_reads < 8){ kv_read_file[kv_reads] = infile; }
        if(kv_reads == kv_read_fail_at){ kv_reads++; return FAIL; }
        kv_reads++;
        *msa = (struct msa*)&kv_dummy_msa;
        return OK;
}
int kalign_run(struct msa *msa, int n_threads, int type, float gpo, float gpe, float tgpe)
{
        (void)msa;
        kv_run.called++; kv_run.n_threads = n_threads; kv_run.type = type; kv_run.gpo = gpo; kv_run.gpe = gpe; kv_run.tgpe = tgpe;
        return kv_run_fails ? FAIL : OK;
}
int kalign_write_msa(struct msa *msa, char *outfile, char *format)
{
        (void)msa;
        kv_writes++; kv_w_outfile = outfile; kv_w_format = format;
        return kv_write_fails ? FAIL : OK;
}
void kalign_free_msa(struct msa* msa){ (void)msa; kv_frees++; }

#define K_FB(x) (*(uint32_t*)&(x))

void h_c09_main(void)
{
        char prog[2] = "k", pos0[3] = "p0", pos1[3] = "p1";
        char* argv[4];
        int k, rc, n, last_gpo = -1, last_gpe = -1, last_tgpe = -1, last_n = -1, last_i = -1, last_o = -1, last_f = -1, last_t = -1;
        float m1 = -1.0f;
        for(k = 0; k < KV_NOPT; k++){
                int c = kv_in_int();
                /* every option that takes part in a run; --help, --version, --showw and unknown options end the program before it */
                KV_ASSUME(c == OPT_ALN_TYPE || c == OPT_SET || c == 'f' || c == 'n' || c == 'q' || c == OPT_GPO || c == OPT_GPE || c == OPT_TGPE || c == 'i' || c == 'o');
                kv_code[k] = c;
                kv_fval[k] = kv_in_float();
                KV_ASSUME(kv_fval[k] == kv_fval[k]);                               /* atof yields a double: a signalling NaN would not survive float -> double -> float bit for bit */
                kv_ival[k] = kv_in_int();
                KV_ASSUME(kv_ival[k] >= 1 && kv_ival[k] <= 1024);                  /* a thread count < 1 is refused with the help text */
                kv_arg[k][0] = 'x'; kv_arg[k][1] = (char)('0' + k); kv_arg[k][2] = 0;
                if(c == OPT_ALN_TYPE){ kv_arg[k][0] = 'd'; kv_arg[k][1] = 'n'; kv_arg[k][2] = 'a'; kv_arg[k][3] = 0; }
                if(c == 'f'){ kv_arg[k][0] = 'm'; kv_arg[k][1] = 's'; kv_arg[k][2] = 'f'; kv_arg[k][3] = 0; }
                if(c == OPT_GPO){ last_gpo = k; } if(c == OPT_GPE){ last_gpe = k; } if(c == OPT_TGPE){ last_tgpe = k; }
                if(c == 'n'){ last_n = k; } if(c == 'i'){ last_i = k; } if(c == 'o'){ last_o = k; } if(c == 'f'){ last_f = k; } if(c == OPT_ALN_TYPE){ last_t = k; }
        }
        kv_npos = kv_in_int(); kv_tty = kv_in_int();
        KV_ASSUME(kv_npos >= 0 && kv_npos <= KV_NPOS && (kv_tty == 0 || kv_tty == 1));
        kv_argc = 1 + kv_npos;
        argv[0] = prog; argv[1] = pos0; argv[2] = pos1; argv[3] = NULL;
        n = (kv_tty ? 0 : 1) + (last_i >= 0 ? 1 : 0) + kv_npos;
        KV_ASSUME(n >= 1);                                                 /* no input at all: help text, nothing is run */
        kv_read_fail_at = kv_in_int(); kv_run_fails = kv_in_int() != 0; kv_write_fails = kv_in_int() != 0;
        KV_ASSUME(kv_read_fail_at >= -1 && kv_read_fail_at < n);
        kv_getopt_calls = 0; kv_reads = 0; kv_writes = 0; kv_frees = 0; kv_run.called = 0; kv_w_outfile = NULL; kv_w_format = NULL;

        rc = kalign_cli_main(kv_argc, argv);

        KV_CHECK((rc == EXIT_SUCCESS) == (kv_read_fail_at < 0 && !kv_run_fails && !kv_write_fails), "exit status is success exactly when reading, aligning and writing succeeded");
        if(kv_read_fail_at < 0){
                int j = 0;
                KV_CHECK(kv_reads == n, "every input is read exactly once");
                if(!kv_tty){ KV_CHECK(kv_read_file[j] == NULL, "standard input comes first"); j++; }
                if(last_i >= 0){ KV_CHECK(kv_read_file[j] == kv_arg[last_i], "then the -i file"); j++; }
                if(kv_npos >= 1){ KV_CHECK(kv_read_file[j] == pos0, "then the positional files in command-line order"); j++; }
                if(kv_npos >= 2){ KV_CHECK(kv_read_file[j] == pos1, "then the positional files in command-line order"); j++; }
                KV_CHECK(kv_run.called == 1, "the alignment runs once");
                KV_CHECK(K_FB(kv_run.gpo) == (last_gpo >= 0 ? K_FB(kv_fval[last_gpo]) : K_FB(m1)), "--gpo reaches kalign_run as gap open (or -1 when not given)");
                KV_CHECK(K_FB(kv_run.gpe) == (last_gpe >= 0 ? K_FB(kv_fval[last_gpe]) : K_FB(m1)), "--gpe reaches kalign_run as gap extension (or -1 when not given)");
                KV_CHECK(K_FB(kv_run.tgpe) == (last_tgpe >= 0 ? K_FB(kv_fval[last_tgpe]) : K_FB(m1)), "--tgpe reaches kalign_run as terminal gap penalty (or -1 when not given)");
                KV_CHECK(kv_run.n_threads == (last_n >= 0 ? kv_ival[last_n] : 4), "-n reaches kalign_run (default 4)");
                KV_CHECK(kv_run.type == (last_t >= 0 ? KALIGN_TYPE_DNA : KALIGN_TYPE_UNDEFINED), "--type dna selects the DNA type, no --type leaves it undefined");
                if(!kv_run_fails){
                        KV_CHECK(kv_writes == 1 && kv_w_outfile == (last_o >= 0 ? kv_arg[last_o] : NULL) && kv_w_format == (last_f >= 0 ? kv_arg[last_f] : NULL), "-o and -f reach kalign_write_msa");
                }
        }
        KV_REACH();
}
#ifdef KV_NATIVE
int main(void){ h_c09_main(); return kv_failed ? 1 : 0; }
#endif
