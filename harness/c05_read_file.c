/* C05 / C04 (B, capacity-shrunk): read_file_stdin() -- the only place where bytes enter the library -- on arbitrary bytes
 * delivered through stubbed stdio (fopen / getline / fclose).
 * Contract (C04 "line wrapping, blank lines and padding", C05 "whatever bytes are in the input files"):
 *   every line of the file becomes one entry, in order; the entry is the line up to (not including) its first control
 *   character -- so "\n", "\r\n" and stray control bytes never reach a reader -- NUL-terminated, with len == its length;
 *   there is always room for one more line (the table grows: initial size shrunk to KV_INCAP, rule R3);
 *   the file is closed, and after free_in_buffer() nothing remains allocated (CBMC memory-leak check).
 * Symbolic: every byte of every line (full byte range, including NUL, control and >= 0x80 bytes).  KV_NOEOL: the last
 * line of the file has no newline.                     */
#include <stdio.h>
#include <stdlib.h>
#include <string.h>
#include <sys/types.h>
#include "kv.h"
#include "stubs_msg.h"
#include "stubs_realloc.h"

#ifndef KV_NL
#define KV_NL 3
#endif
#ifndef KV_LW
#define KV_LW 3
#endif
static char lines[KV_NL][KV_LW + 1];
static int kv_next_line;
static int kv_open, kv_closed;

static char kv_dummy_file[8];
FILE* kv_fopen(const char* p, const char* m){ (void)p; (void)m; kv_open++; kv_next_line = 0; return (FILE*)kv_dummy_file; }   /* never dereferenced */
int kv_fclose(FILE* f){ (void)f; kv_closed++; return 0; }
ssize_t kv_getline(char** lineptr, size_t* n, FILE* f)
{
        int i, k;
        (void)f;
        if(kv_next_line >= KV_NL){ return -1; }
        if(*lineptr == NULL){ *lineptr = malloc(KV_LW + 2); __CPROVER_assume(*lineptr != NULL); *n = KV_LW + 2; }
        k = kv_next_line;
        for(i = 0; i < KV_LW; i++){ (*lineptr)[i] = lines[k][i]; }
        kv_next_line++;
#ifdef KV_NOEOL
        if(k == KV_NL - 1){              /* the file does not end in a newline: the last line comes without one */
                (*lineptr)[KV_LW] = 0;
                return KV_LW;
        }
#endif
        (*lineptr)[KV_LW] = '\n';
        (*lineptr)[KV_LW + 1] = 0;
        return KV_LW + 1;
}
int kv_file_exists(const char* name){ (void)name; return 1; }

#include "tldevel.h"
#define fopen kv_fopen
#define fclose kv_fclose
#define getline kv_getline
#define my_file_exists kv_file_exists
#include "msa_io.c"
#undef fopen
#undef fclose
#undef getline
#undef my_file_exists

#ifdef KV_CBMC
ESL_STOPWATCH* esl_stopwatch_Create(void){ return NULL; }
void esl_stopwatch_Destroy(ESL_STOPWATCH* w){ (void)w; }
int esl_stopwatch_Start(ESL_STOPWATCH* w){ (void)w; return 0; }
int esl_stopwatch_Stop(ESL_STOPWATCH* w){ (void)w; return 0; }
int tl_stopwatch_Display(ESL_STOPWATCH* w){ (void)w; return 0; }
#endif

static int is_ctl(char ch){ int c = (int)ch; return (c >= 0 && c <= 31) || c == 127; }    /* C locale */

void h_c05_read_file(void)
{
        struct in_buffer* b = NULL;
        int i, k, rc;
        for(k = 0; k < KV_NL; k++){
                for(i = 0; i < KV_LW; i++){ lines[k][i] = (char)kv_in_u8(); }
                lines[k][KV_LW] = 0;
        }
        kv_open = 0; kv_closed = 0;
        rc = read_file_stdin(&b, "file");
        KV_CHECK(rc == OK && b != NULL, "the file is read");
        if(rc == OK && b != NULL){
                KV_CHECK(kv_open == 1 && kv_closed == 1, "the file is opened and closed once");
                KV_CHECK(b->n_lines == KV_NL, "one entry per line of the file");
                KV_CHECK(b->alloc_lines > b->n_lines, "there is room for one more line");
                for(k = 0; k < KV_NL; k++){
                        int want = 0, stop = 0;
                        for(i = 0; i < KV_LW; i++){
                                if(!stop && is_ctl(lines[k][i])){ stop = 1; }
                                if(!stop){ want++; }
                        }
                        KV_CHECK(b->l[k]->len == want, "entry ends at the first control character of the line");
                        for(i = 0; i < KV_LW; i++){
                                if(i < want){ KV_CHECK(b->l[k]->line[i] == lines[k][i], "entry carries the bytes of the line"); }
                        }
                        KV_CHECK(b->l[k]->line[want] == 0, "entry is NUL-terminated at its length");
                }
                free_in_buffer(b);
        }
        KV_REACH();
}
#ifdef KV_NATIVE
int main(void){ h_c05_read_file(); return kv_failed ? 1 : 0; }
#endif
