/* C12 (P for the three-sequence instance, loop bounds are the instance size): d_estimation() in pair mode -- "exact pairwise
 * distances for < 100 sequences; identical sequences are at distance 0 (+ length term < 1)".
 * The bit-parallel kernel is replaced by a stub with its contract (C11: a value 0..1024, the same for both orders of a
 * pair, 0 for a sequence against itself); the 2-D allocator of tldevel.c by a plain one.
 * Contract of d_estimation(msa, samples, n, pair = 1), for every i, j:
 *    dm[i][j] == dm[j][i]
 *    D(i,j) <= dm[i][j] <= D(i,j) + 1                      (the length term never outweighs one edit)
 *    dm[i][j] == (float)D(i,j) + (float)(min(10000, (len_i + len_j) / 2) / 10000.0)
 * the last line is, verbatim, the premise under which C12.upgma shows that copies form a subtree.               */
#include "kv.h"
#include "stubs_msg.h"
#ifndef KV_N
#define KV_N 3
#endif
static const unsigned char* kv_seqptr[KV_N];
static int kv_d[KV_N][KV_N];
static int kv_bad_call;
static int kv_idx(const unsigned char* p)
{
        int k;
        for(k = 0; k < KV_N; k++){ if(kv_seqptr[k] == p){ return k; } }
        return -1;
}
int kv_bpm_block_stub(const unsigned char* t, const unsigned char* p, int n, int m)
{
        int a = kv_idx(t), b = kv_idx(p);
        (void)n; (void)m;
        if(a < 0 || b < 0){ kv_bad_call = 1; return 0; }
        return kv_d[a][b];
}
#define bpm_block kv_bpm_block_stub
#include "sequence_distance.c"
#undef bpm_block

/* plain stand-in for tldevel.c's typed 2-D allocator (trusted; the native replay links the real one) */
#ifdef KV_CBMC
int alloc_2D_array_size_float(float*** p, int d1, int d2)
{
        float** m = malloc(sizeof(float*) * (size_t)d1);
        int i;
        __CPROVER_assume(m != NULL);
        for(i = 0; i < d1; i++){ m[i] = malloc(sizeof(float) * (size_t)d2); __CPROVER_assume(m[i] != NULL); }
        *p = m;
        return OK;
}
#endif

void h_c12_distance(void)
{
        struct msa msa;
        struct msa_seq rec[KV_N];
        struct msa_seq* ptr[KV_N];
        static uint8_t res[KV_N][2];
        int samples[KV_N];
        float** dm;
        int i, j;
        for(i = 0; i < KV_N; i++){
                /* lengths: a symbolic choice among representative values around every constant of the formula (a fully symbolic
                   length makes the solver reason about a double-precision division circuit: > 15 min) */
                static const int kv_lens[16] = {1, 2, 3, 500, 999, 1000, 1001, 2001, 5000, 9999, 10000, 10001, 19999, 20001, 100000, 200000};
                int li = kv_in_int();
                KV_ASSUME(li >= 0 && li < 16);
                rec[i].s = res[i]; rec[i].len = kv_lens[li];
                ptr[i] = &rec[i]; samples[i] = i; kv_seqptr[i] = res[i];
        }
        for(i = 0; i < KV_N; i++){
                for(j = i; j < KV_N; j++){
                        int d = (i == j) ? 0 : kv_in_int();        /* C11: a sequence is at edit distance 0 from itself */
                        KV_ASSUME(d >= 0 && d <= 1024);
                        kv_d[i][j] = d; kv_d[j][i] = d;
                }
        }
        msa.sequences = ptr; msa.numseq = KV_N;
        kv_bad_call = 0;
        dm = d_estimation(&msa, samples, KV_N, 1);
        KV_CHECK(dm != NULL, "d_estimation returns a matrix");
        KV_CHECK(!kv_bad_call, "the kernel is called on sequences of the msa only");
        if(dm){
                for(i = 0; i < KV_N; i++){
                        for(j = 0; j < KV_N; j++){
                                int sm = (rec[i].len + rec[j].len) / 2;
                                float want = (float)kv_d[i][j] + (float)((sm < 10000 ? (double)sm : 10000.0) / 10000.0);
                                KV_CHECK(dm[i][j] == dm[j][i], "distance matrix is symmetric");
                                KV_CHECK(dm[i][j] >= (float)kv_d[i][j] && dm[i][j] <= (float)kv_d[i][j] + 1.0f, "distance = edit distance + a length term in [0,1]");
                                KV_CHECK(dm[i][j] == want, "distance = edit distance + min(10000, mean length) / 10000 (the premise of C12.upgma)");
                        }
                }
        }
        KV_REACH();
}
#ifdef KV_NATIVE
int main(void){ h_c12_distance(); return kv_failed ? 1 : 0; }
#endif
