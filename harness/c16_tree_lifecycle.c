/* C16 / C05 (B): build_tree_kmeans() -- everything the tree stage allocates (anchor list, the numseq x anchors distance
 * matrix, the sample list, the exact pair matrix of the < 100 sequence branch, the tree nodes) is released before it
 * returns; what it hands out is the task list, which free_tasks() releases.  Checked with CBMC's memory-leak check.
 * Real: build_tree_kmeans, bisecting_kmeans (< 100 sequences: upgma branch), upgma, label_internal, create_tasks,
 *       alloc_tasks / free_tasks, alloc_node and the node bookkeeping.
 * Stubbed (their own queries: C11 / C12): pick_anchor (returns KV_ANCH = min(2, numseq) anchors: the library's
 *       min(32, numseq) at a small scale) and d_estimation (freshly allocated matrices of the documented shapes:
 *       numseq rows x padded anchor columns, or n x n in pair mode, concrete distinct distances); gfree of tldevel.c.   */
#include "kv.h"
#include "tldevel.h"
#include "msa_struct.h"
#include "stubs_msg.h"

#ifndef KV_N
#define KV_N 3
#endif
#define KV_ANCH (KV_N < 2 ? KV_N : 2)

int* kv_pick_anchor(struct msa* msa, int* n)
{
        int* a = malloc(sizeof(int) * KV_ANCH);
        int i;
        (void)msa;
        __CPROVER_assume(a != NULL);
        for(i = 0; i < KV_ANCH; i++){ a[i] = i; }
        *n = KV_ANCH;
        return a;
}
float** kv_d_estimation(struct msa* msa, int* samples, int num_samples, int pair)
{
        float** dm;
        int i, j;
        (void)samples;
        if(pair){
                dm = malloc(sizeof(float*) * (size_t)num_samples);
                __CPROVER_assume(dm != NULL);
                for(i = 0; i < num_samples; i++){
                        dm[i] = malloc(sizeof(float) * (size_t)num_samples);
                        __CPROVER_assume(dm[i] != NULL);
                        for(j = 0; j < num_samples; j++){ dm[i][j] = (i == j) ? 0.001f : (float)(1 + (i > j ? i * 3 + j : j * 3 + i)) + 0.002f; }
                }
                return dm;
        }
        dm = malloc(sizeof(float*) * (size_t)msa->numseq);
        __CPROVER_assume(dm != NULL);
        for(i = 0; i < msa->numseq; i++){
                dm[i] = malloc(sizeof(float) * 8);             /* anchors padded to a multiple of 8 */
                __CPROVER_assume(dm[i] != NULL);
                for(j = 0; j < 8; j++){ dm[i][j] = (j < num_samples) ? (float)(1 + ((i + 2 * j) % 5)) : 0.0f; }
        }
        return dm;
}
/* stand-in for tldevel.c's gfree on the n x n pair matrix handed out above */
static int kv_pair_rows;
void kv_gfree2d(float** dm)
{
        int i;
        for(i = 0; i < kv_pair_rows; i++){ free(dm[i]); }
        free(dm);
}
#undef gfree
#define gfree(p) kv_gfree2d((float**)(p))
#define pick_anchor kv_pick_anchor
#define d_estimation kv_d_estimation
#include "bisectingKmeans.c"
#undef pick_anchor
#undef d_estimation

#ifdef KV_CBMC
ESL_STOPWATCH* esl_stopwatch_Create(void){ return NULL; }
void esl_stopwatch_Destroy(ESL_STOPWATCH* w){ (void)w; }
int esl_stopwatch_Start(ESL_STOPWATCH* w){ (void)w; return 0; }
int esl_stopwatch_Stop(ESL_STOPWATCH* w){ (void)w; return 0; }
int tl_stopwatch_Display(ESL_STOPWATCH* w){ (void)w; return 0; }
#endif

void h_c16_tree_lifecycle(void)
{
        struct msa msa;
        struct msa_seq rec[KV_N];
        struct msa_seq* ptr[KV_N];
        static uint8_t res[KV_N][2];
        struct aln_tasks* t = NULL;
        int i, rc;
        for(i = 0; i < KV_N; i++){ rec[i].s = res[i]; rec[i].len = 2; rec[i].rank = i; ptr[i] = &rec[i]; }
        msa.sequences = ptr; msa.numseq = KV_N; msa.quiet = 1; msa.run_parallel = 0;
        kv_pair_rows = KV_N;
        rc = alloc_tasks(&t, KV_N);                 /* as kalign_run does before the tree stage */
        KV_ASSUME(rc == OK);
        rc = build_tree_kmeans(&msa, &t);
        KV_CHECK(rc == OK, "build_tree_kmeans succeeds");
        KV_CHECK(t != NULL, "build_tree_kmeans hands out the task list");
        if(t){
                KV_CHECK(t->n_tasks == KV_N - 1, "one merge per internal node of a binary tree over all sequences");
                free_tasks(t);
        }
        KV_REACH();          /* after this: nothing may remain allocated (--memory-leak-check) */
}
#ifdef KV_NATIVE
int main(void){ h_c16_tree_lifecycle(); return kv_failed ? 1 : 0; }
#endif
