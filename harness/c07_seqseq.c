/* C07 / C08 (B): sequence-sequence DP kernels of aln_seqseq.c on small rectangles with symbolic
 * residues, substitution scores, penalties and boundary states.
 *
 *  h_c07_fwd_ref : aln_seqseq_foward() against the three-state affine-gap recurrence written ONCE below as a
 *                  plain full-matrix programme (no rolling array, no register juggling).  Same operation order per
 *                  transition, so results are compared bit for bit.  States: a = column is a pair, ga = residue of
 *                  b against a gap, gb = residue of a against a gap; no ga<->gb transition; open costs gpo, extension
 *                  gpe, and a gap that touches the start (startb == 0) or the end (endb == len_b) of b costs tgpe per
 *                  residue and nothing to open.
 *  h_c07_bwd_mirror : aln_seqseq_backward() is the mirror image of the forward pass: running the REAL forward
 *                  kernel on the reversed operands gives the same numbers (bit for bit) as the REAL backward kernel.
 *
 * Shape: KV_ROWS residues of a in the rectangle, KV_LB = len_b, KV_SB = startb, KV_EB = endb.                       */
#include "kv.h"
#include "tldevel.h"
#include "aln_param.h"
#include "aln_struct.h"
#include "aln_seqseq.c"
#include "stubs_msg.h"
#include "meetup_spec.h"

#ifndef KV_ROWS
#define KV_ROWS 2
#endif
#ifndef KV_LB
#define KV_LB 3
#endif
#ifndef KV_SB
#define KV_SB 0
#endif
#ifndef KV_EB
#define KV_EB KV_LB
#endif
#define KV_NSYM 3          /* residues are codes 0..2 of a symbolic 3x3 substitution matrix */
#define NEG (-FLT_MAX)
#define RMAX(a,b) ((a) > (b) ? (a) : (b))

static float kv_subm_rows[KV_NSYM][KV_NSYM];
static float* kv_subm_ptr[KV_NSYM];
static struct aln_param kv_ap;
static uint8_t kv_a[KV_ROWS + 1];
/* one pad byte in front of b: the forward kernels do `seq2--` (they index b from 1), which forms a pointer one element
   before the array -- never dereferenced, but outside the object for CBMC's pointer-arithmetic check (see DESIGN.md, OBS-1) */
static uint8_t kv_b_store[KV_LB + 2];
#define kv_b (kv_b_store + 1)

/* Parameter sets (concrete, shape parameter KV_PSET): 0 = dna (5/-4, 8/6/0), 1 = internal (5/-4, 8/6/8),
 * 2 = a 3x3 corner of CorBLOSUM66_13plus with 5.5/2/1.  Boundary state (KV_IN): the unit vectors the Hirschberg
 * recursion uses: 0 = (0,-,-), 1 = (-,0,-), 2 = (-,-,0).  Residues are symbolic codes 0..2.                      */
#ifndef KV_PSET
#define KV_PSET 0
#endif
#ifndef KV_IN
#define KV_IN 0
#endif
static const float kv_psets[3][3][3] = {
        { { 5,-4,-4}, {-4, 5,-4}, {-4,-4, 5} },
        { { 5,-4,-4}, {-4, 5,-4}, {-4,-4, 5} },
        { { 5,-1,-1}, {-1, 6, 0}, {-1, 0, 6} },
};
static const float kv_pens[3][3] = { {8, 6, 0}, {8, 6, 8}, {5.5f, 2, 1} };

static float kv_state(void){ return 7.25f; }   /* stale array contents: an arbitrary concrete value */

static void kv_setup_params(void)
{
        int i, j;
        for(i = 0; i < KV_NSYM; i++){
                for(j = 0; j < KV_NSYM; j++){ kv_subm_rows[i][j] = kv_psets[KV_PSET][i][j]; }
                kv_subm_ptr[i] = kv_subm_rows[i];
        }
        kv_ap.subm = kv_subm_ptr;
        kv_ap.gpo = kv_pens[KV_PSET][0]; kv_ap.gpe = kv_pens[KV_PSET][1]; kv_ap.tgpe = kv_pens[KV_PSET][2];
        kv_ap.nthreads = 1; kv_ap.score = 0.0f;
        for(i = 0; i < KV_ROWS; i++){ kv_a[i] = kv_in_u8(); KV_ASSUME(kv_a[i] < KV_NSYM); }
        for(i = 0; i < KV_LB; i++){ kv_b[i] = kv_in_u8(); KV_ASSUME(kv_b[i] < KV_NSYM); }
}
static struct states kv_in_state(void)
{
        struct states in;
        in.a  = (KV_IN == 0) ? 0.0f : -FLT_MAX;
        in.ga = (KV_IN == 1) ? 0.0f : -FLT_MAX;
        in.gb = (KV_IN == 2) ? 0.0f : -FLT_MAX;
        return in;
}

/* ------------------------------------------------------------------ the recurrence, full matrix */
static struct states F[KV_ROWS + 1][KV_LB + 1];

static void ref_forward(struct states in, const uint8_t* a, const uint8_t* b /* b[j-1] is the j-th residue */,
                        int startb, int endb, int len_b, float gpo, float gpe, float tgpe)
{
        int i, j;
        F[0][startb] = in;
        for(j = startb + 1; j < endb; j++){
                F[0][j].a = NEG;
                if(startb){ F[0][j].ga = RMAX(F[0][j-1].ga - gpe, F[0][j-1].a - gpo); }
                else{       F[0][j].ga = RMAX(F[0][j-1].ga, F[0][j-1].a) - tgpe; }
                F[0][j].gb = NEG;
        }
        F[0][endb].a = NEG; F[0][endb].ga = NEG; F[0][endb].gb = NEG;
        for(i = 1; i <= KV_ROWS; i++){
                const float* sub = kv_subm_rows[a[i-1]];
                F[i][startb].a = NEG;
                F[i][startb].ga = NEG;
                if(startb){ F[i][startb].gb = RMAX(F[i-1][startb].gb - gpe, F[i-1][startb].a - gpo); }
                else{       F[i][startb].gb = RMAX(F[i-1][startb].gb, F[i-1][startb].a) - tgpe; }
                for(j = startb + 1; j <= endb; j++){
                        float x = RMAX(RMAX(F[i-1][j-1].a, F[i-1][j-1].ga - gpo), F[i-1][j-1].gb - gpo);
                        F[i][j].a = x + sub[b[j-1]];
                        if(j < endb){
                                F[i][j].ga = RMAX(F[i][j-1].ga - gpe, F[i][j-1].a - gpo);
                                F[i][j].gb = RMAX(F[i-1][j].gb - gpe, F[i-1][j].a - gpo);
                        }else{
                                F[i][j].ga = NEG;
                                if(endb != len_b){ F[i][j].gb = RMAX(F[i-1][j].gb - gpe, F[i-1][j].a - gpo); }
                                else{              F[i][j].gb = RMAX(F[i-1][j].gb, F[i-1][j].a) - tgpe; }
                        }
                }
        }
}

#define FBITS(x) (*(uint32_t*)&(x))

void h_c07_fwd_ref(void)
{
        struct aln_mem m;
        struct states f[KV_LB + 2];
        struct states in;
        int j;
        kv_setup_params();
        in = kv_in_state();
        for(j = 0; j < KV_LB + 2; j++){ f[j].a = kv_state(); f[j].ga = kv_state(); f[j].gb = kv_state(); }   /* stale contents */
        f[0] = in;
        m.f = f; m.b = NULL; m.seq1 = kv_a; m.seq2 = kv_b; m.prof1 = NULL; m.prof2 = NULL; m.ap = &kv_ap;
        m.starta = 0; m.enda = KV_ROWS; m.startb = KV_SB; m.endb = KV_EB; m.len_a = KV_ROWS; m.len_b = KV_LB;
        m.starta_2 = 0; m.enda_2 = 0; m.path = NULL; m.tmp_path = NULL; m.sip = 1; m.mode = ALN_MODE_FULL;

        ref_forward(in, kv_a, kv_b, KV_SB, KV_EB, KV_LB, kv_ap.gpo, kv_ap.gpe, kv_ap.tgpe);
        aln_seqseq_foward(&m);

        for(j = KV_SB; j <= KV_EB; j++){
                KV_CHECK(FBITS(f[j].a) == FBITS(F[KV_ROWS][j].a), "forward: aligned state equals the recurrence");
                KV_CHECK(FBITS(f[j].ga) == FBITS(F[KV_ROWS][j].ga), "forward: gap-in-a state equals the recurrence");
                KV_CHECK(FBITS(f[j].gb) == FBITS(F[KV_ROWS][j].gb), "forward: gap-in-b state equals the recurrence");
        }
        KV_REACH();
}

void h_c07_bwd_mirror(void)
{
        struct aln_mem m, mm;
        struct states f[KV_LB + 2], b[KV_LB + 2];
        struct states in;
        uint8_t ra[KV_ROWS + 1], rb_store[KV_LB + 2];
        uint8_t* rb = rb_store + 1;
        int j;
        kv_setup_params();
        in = kv_in_state();
        for(j = 0; j < KV_LB + 2; j++){ b[j].a = kv_state(); b[j].ga = kv_state(); b[j].gb = kv_state(); f[j] = b[j]; }
        b[0] = in; f[0] = in;
        /* the real backward pass on rows [0,KV_ROWS) x columns [KV_SB,KV_EB] */
        m.f = NULL; m.b = b; m.seq1 = kv_a; m.seq2 = kv_b; m.prof1 = NULL; m.prof2 = NULL; m.ap = &kv_ap;
        m.starta = 0; m.enda = KV_ROWS; m.starta_2 = 0; m.enda_2 = KV_ROWS; m.startb = KV_SB; m.endb = KV_EB;
        m.len_a = KV_ROWS; m.len_b = KV_LB; m.path = NULL; m.tmp_path = NULL; m.sip = 1; m.mode = ALN_MODE_FULL;
        /* the mirrored problem for the real forward pass */
        for(j = 0; j < KV_ROWS; j++){ ra[j] = kv_a[KV_ROWS - 1 - j]; }
        for(j = 0; j < KV_LB; j++){ rb[j] = kv_b[KV_LB - 1 - j]; }
        mm = m;
        mm.f = f; mm.b = NULL; mm.seq1 = ra; mm.seq2 = rb;
        mm.startb = KV_LB - KV_EB; mm.endb = KV_LB - KV_SB;

        aln_seqseq_backward(&m);
        aln_seqseq_foward(&mm);

        for(j = 0; j <= KV_EB - KV_SB; j++){
                KV_CHECK(FBITS(b[KV_EB - j].a) == FBITS(f[mm.startb + j].a), "backward == forward on reversed operands (aligned state)");
                KV_CHECK(FBITS(b[KV_EB - j].ga) == FBITS(f[mm.startb + j].ga), "backward == forward on reversed operands (gap-in-a state)");
                KV_CHECK(FBITS(b[KV_EB - j].gb) == FBITS(f[mm.startb + j].gb), "backward == forward on reversed operands (gap-in-b state)");
        }
        KV_REACH();
}
void h_c07_meetup(void)
{
        struct aln_mem m;
        struct states f[KV_LB + 2], b[KV_LB + 2];
        int old_cor[5];
        int meet = -7, t = -7, j;
        float score = 0.0f;
        struct kv_meet r;
        kv_setup_params();
        for(j = 0; j < KV_LB + 2; j++){
                f[j].a = kv_state_value(); f[j].ga = kv_state_value(); f[j].gb = kv_state_value();
                b[j].a = kv_state_value(); b[j].ga = kv_state_value(); b[j].gb = kv_state_value();
        }
        m.f = f; m.b = b; m.seq1 = kv_a; m.seq2 = kv_b; m.prof1 = NULL; m.prof2 = NULL; m.ap = &kv_ap;
        m.starta = 0; m.enda = 1; m.starta_2 = 1; m.enda_2 = KV_ROWS; m.startb = KV_SB; m.endb = KV_EB;
        m.len_a = KV_ROWS; m.len_b = KV_LB; m.path = NULL; m.tmp_path = NULL; m.sip = 1; m.mode = ALN_MODE_FULL;
        old_cor[0] = 0; old_cor[1] = KV_ROWS; old_cor[2] = KV_SB; old_cor[3] = KV_EB; old_cor[4] = 1;
        r = spec_meetup(f, b, KV_SB, KV_EB, KV_SB == 0, KV_EB == KV_LB, kv_ap.gpo, kv_ap.gpo, kv_ap.gpe, kv_ap.tgpe);
        aln_seqseq_meetup(&m, old_cor, &meet, &t, &score);
        KV_CHECK(meet == r.c && t == r.t, "meetup returns the first best (column, transition) of the meet-in-the-middle rule");
        KV_CHECK(FBITS(score) == FBITS(r.score), "meetup returns the score of that candidate");
        KV_REACH();
}
#ifdef KV_NATIVE
int main(void)
{
#if defined(KV_ENTRY_MEETUP)
        h_c07_meetup();
#elif defined(KV_ENTRY_MIRROR)
        h_c07_bwd_mirror();
#else
        h_c07_fwd_ref();
#endif
        return kv_failed ? 1 : 0;
}
#endif
