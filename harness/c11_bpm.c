/* C11 (P): bpm() (single-word Myers kernel, pattern 1..63) equals the reference column DP for any text
 * length: text loop closed by a loop contract over a ghost DP column. goto-instrument --dfcc. */
#include "kv.h"
#include "bpm.contracts.h"
#include "bpm.c"
#include "stubs_msg.h"

void h_c11_bpm(void)
{
        const uint8_t *t, *p;
        int n, m;
        bpm(t, p, n, m);
        KV_REACH();
}
