/* C17 (P / B names): the comparators that match the rows of the two alignments in kalign_msa_compare.
 *  sort_by_both   : orders by name (first MSA_NAME_LEN bytes) ascending; for two records with DIFFERENT names the order is
 *                   total -- cmp(x,y) == -cmp(y,x) -- and does not depend on the checksum (which differs between the two
 *                   alignments); equal names fall back to the checksum.
 *  sort_by_name   : -1 iff name1 < name2.
 *  sort_by_chksum : antisymmetric for different checksums.
 * Checksums: full int domain.  Names: symbolic NUL-terminated strings of up to KV_NAMELEN bytes (so that one name can be a
 * proper prefix of the other).                                                                                      */
#include "kv.h"
#include "msa_check.c"
#include "stubs_msg.h"
#include "stubs_qsort.h"
#include "stubs_snprintf.h"
#include "stubs_str.h"

#ifndef KV_NAMELEN
#define KV_NAMELEN 4
#endif
#define KV_BUF (KV_NAMELEN + 1)

static void mk(struct sort_struct_name_chksum* r, char** np, char* name)
{
        int i;
        for(i = 0; i < KV_BUF - 1; i++){ name[i] = kv_in_char(); }
        name[KV_BUF - 1] = 0;
        *np = name;
        r->seq = NULL; r->name = np; r->chksum = kv_in_int(); r->action = 0;
}
static int cmpnames(const char* a, const char* b)      /* -1 / 0 / 1, bytes as unsigned char, stops at NUL */
{
        int i;
        for(i = 0; i < KV_BUF; i++){
                int ca = a[i] < 0 ? a[i] + 256 : a[i], cb = b[i] < 0 ? b[i] + 256 : b[i];
                if(ca != cb){ return ca < cb ? -1 : 1; }
                if(ca == 0){ return 0; }
        }
        return 0;
}

void h_c17_comparators(void)
{
        static char n1[KV_BUF], n2[KV_BUF];
        char *p1, *p2;
        struct sort_struct_name_chksum r1, r2;
        struct sort_struct_name_chksum *q1 = &r1, *q2 = &r2;
        int c12, c21, nc;
        mk(&r1, &p1, n1); mk(&r2, &p2, n2);
        nc = cmpnames(n1, n2);
        c12 = sort_by_both(&q1, &q2);
        c21 = sort_by_both(&q2, &q1);
        if(nc != 0){
                KV_CHECK(c12 == -c21, "sort_by_both is antisymmetric for records with different names");
                KV_CHECK(c12 == nc, "sort_by_both orders by name whatever the checksums are");
        }else if(r1.chksum != r2.chksum){
                KV_CHECK(c12 == -c21, "sort_by_both: equal names are ordered by checksum, antisymmetric");
        }
        c12 = sort_by_name(&q1, &q2);
        if(nc != 0){ KV_CHECK(c12 == nc, "sort_by_name orders by name"); }
        c12 = sort_by_chksum(&q1, &q2);
        c21 = sort_by_chksum(&q2, &q1);
        if(r1.chksum != r2.chksum){ KV_CHECK(c12 == -c21, "sort_by_chksum is antisymmetric for different checksums"); }
        KV_REACH();
}
#ifdef KV_NATIVE
int main(void){ h_c17_comparators(); return kv_failed ? 1 : 0; }
#endif
