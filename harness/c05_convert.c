/* C05/C14 (P): convert_msa_to_internal, residue loop closed by a loop contract
 * (ghost residue index), sequence loop over a concrete number of sequences (2)
 * unwound; sequence lengths symbolic and unbounded (up to INT_MAX-1).           */
#include "kv.h"
#include "tldevel.h"
#include "msa_struct.h"
#include "alphabet.h"
#include "msa_op.contracts.h"
#include "alphabet.contracts.h"
#include "msa_op.c"
#include "stubs_msg.h"
#include "msa_build.h"

#ifndef KV_MAXLEN
#define KV_MAXLEN 1000
#endif
#ifndef KV_NSEQ
#define KV_NSEQ 2
#endif

void h_c05_convert(void)
{
        struct msa* m = kv_mk_msa_raw(KV_NSEQ);
        int type = kv_in_int();
        int r, i;
        KV_ASSUME(type == ALPHA_defDNA || type == ALPHA_redPROTEIN || type == ALPHA_ambigiousPROTEIN);
        for(i = 0; i < KV_NSEQ; i++){
                int len = kv_in_int();
                KV_ASSUME(len >= 0 && len <= KV_MAXLEN);
                m->sequences[i] = kv_mk_seq_raw(len, len + 1);
        }
        kv_gi = kv_in_int();
        kv_gj = kv_in_int();
        KV_ASSUME(0 <= kv_gi && kv_gi < KV_NSEQ);
        KV_ASSUME(0 <= kv_gj && kv_gj < m->sequences[kv_gi]->len);
        /* data invariant established by every reader: residues are ASCII letters (isalpha in the C locale) */
        {
                char c = m->sequences[kv_gi]->seq[kv_gj];
                KV_ASSUME((c >= 'A' && c <= 'Z') || (c >= 'a' && c <= 'z'));
                kv_ac = (int)c; /* the alphabet contract is instantiated at this letter */
        }
        r = convert_msa_to_internal(m, type);
        KV_CHECK(K_POST_CONVERT_L(r, m, type), "convert_msa_to_internal: L is the alphabet size");
        KV_CHECK(K_POST_CONVERT_RANGE(r, m, kv_gi, kv_gj), "convert_msa_to_internal: every letter gets a code < L");
        KV_REACH();
}
