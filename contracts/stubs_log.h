/* Assumed contract on libm's log(): for the arguments kalign evaluates in
 * detect_alphabet the result lies within 1e-9 of the mathematical value
 * (intervals computed once with python3 math.log); any other argument: unconstrained.
 * CBMC mode only; natively libm runs.  Listed under assumptions as LOG-axioms.  */
#ifndef KV_STUBS_LOG_H
#define KV_STUBS_LOG_H
#ifdef KV_CBMC
double nondet_double(void);
/* log is a FUNCTION: the same argument gives the same (unknown, interval-constrained) value on every call */
static double kv_log_val[5];
static int kv_log_set[5];
static double kv_log_iv(int k, double mid)
{
        if(!kv_log_set[k]){
                double r = nondet_double();
                __CPROVER_assume(r >= mid - 1e-9 && r <= mid + 1e-9);
                kv_log_val[k] = r;
                kv_log_set[k] = 1;
        }
        return kv_log_val[k];
}
double log(double x)
{
        if(x == 0.0001 * 1.0 / 116.0){ return kv_log_iv(0, -13.963930563082547); }
        if(x == 0.0001 * 1.0 / 88.0){  return kv_log_iv(1, -13.687677186454389); }
        if(x == 0.9999 * 1.0 / 12.0){  return kv_log_iv(2, -2.4850066547883336); }
        if(x == 0.9999 * 1.0 / 40.0){  return kv_log_iv(3, -3.6889794591142695); }
        if(x == 0.9999 * 1.0 / 42.0){  return kv_log_iv(4, -3.7377696232837017); }
        return nondet_double();
}
#endif
#endif
