/* Trusted stub: strstr has no body in CBMC's C library model.  Plain textbook
 * implementation, CBMC mode only (natively libc's strstr runs). */
#ifndef KV_STUBS_STR_H
#define KV_STUBS_STR_H
#ifdef KV_CBMC
char* strstr(const char* h, const char* n)
{
        size_t i, j;
        if(n[0] == 0){ return (char*)h; }
        for(i = 0; h[i] != 0; i++){
                for(j = 0; n[j] != 0 && h[i+j] == n[j]; j++){ }
                if(n[j] == 0){ return (char*)(h + i); }
                if(h[i+j] == 0){ return 0; }
        }
        return 0;
}
/* strnlen as a plain loop: CBMC's library model returns a value the symbolic execution cannot fold to a constant even
 * for concrete strings, which makes every later buffer position symbolic */
size_t strnlen(const char* s, size_t maxlen)
{
        size_t i;
        for(i = 0; i < maxlen; i++){
                if(s[i] == 0){ return i; }
        }
        return maxlen;
}
#endif
#endif
