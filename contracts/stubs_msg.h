/* Trusted stubs: the three diagnostic printers of tldevel.c (variadic, vfprintf
 * based, no effect on any kalign object).  CBMC mode only; natively the real
 * tldevel.c is linked. */
#ifndef KV_STUBS_MSG_H
#define KV_STUBS_MSG_H
#ifdef KV_CBMC
void error(const char *location, const char *format, ...){ (void)location; (void)format; }
void warning(const char *location, const char *format, ...){ (void)location; (void)format; }
void log_message(const char *format, ...){ (void)format; }
#endif
#endif
