/* Contracts for src/run_kalign.c and src/parameters.c  (C09 plumbing; C05 exit status)
 * From the property: "Every documented --type word selects the type of that name";
 * the option defaults mean "not given"; what run_kalign hands to kalign_run is what
 * the options said.  */
#ifndef RUN_KALIGN_CONTRACTS_H
#define RUN_KALIGN_CONTRACTS_H

/* documented words (README.md:60-72) and the constant of that name (kalign.h) */
static const char* const kv_type_word[5] = { "protein", "divergent", "dna", "internal", "rna" };
static const int kv_type_const[5] = { KALIGN_TYPE_PROTEIN, KALIGN_TYPE_PROTEIN_DIVERGENT, KALIGN_TYPE_DNA, KALIGN_TYPE_DNA_INTERNAL, KALIGN_TYPE_RNA };

/* ghost: which documented word `in` spells (0..4), chosen by the harness */
int kv_word;

#define K_POST_SET_ALN_TYPE_WORD(ret,type_out,w)  ((ret) == OK && (type_out) == kv_type_const[w])
#define K_POST_SET_ALN_TYPE_NULL(ret,type_out)    ((ret) == OK && (type_out) == KALIGN_TYPE_UNDEFINED)

/* init_param: "not given" is -1 for each penalty; type undefined until --type is parsed */
#define K_POST_INIT_PARAM(p) ((p) == NULL || ((p)->gpo == -1.0f && (p)->gpe == -1.0f && (p)->tgpe == -1.0f && (p)->nthreads == 4 && (p)->num_infiles == 0 && (p)->infile == NULL && (p)->outfile == NULL && (p)->format == NULL && (p)->quiet == 0))

/* ghost record of what the (stubbed) library entry points were called with */
struct kv_run_rec { int called; int n_threads; int type; float gpo; float gpe; float tgpe; void* msa; };
struct kv_run_rec kv_run;
int kv_reads;        /* number of kalign_read_input calls */
int kv_writes;       /* number of kalign_write_msa calls */
int kv_frees;
int kv_read_fail_at; /* ghost: index of the read call that fails, or -1 */
int kv_run_fails;
int kv_write_fails;

#define K_FBITS(x) (*(uint32_t*)&(x))
/* everything the options said reaches kalign_run bit for bit, exactly once, after all inputs were read */
#define K_POST_RUN_KALIGN_ARGS(ret,p) ( kv_run.called == 0 || ( kv_run.called == 1 && kv_run.type == (p)->type && kv_run.n_threads == (p)->nthreads && \
          K_FBITS(kv_run.gpo) == K_FBITS((p)->gpo) && K_FBITS(kv_run.gpe) == K_FBITS((p)->gpe) && K_FBITS(kv_run.tgpe) == K_FBITS((p)->tgpe) && kv_reads == (p)->num_infiles ) )
/* failures are reported as failures (C05): FAIL iff a stage failed; the msa is released exactly once */
#define K_POST_RUN_KALIGN_STATUS(ret) ( ((ret) == OK) == (kv_read_fail_at < 0 && !kv_run_fails && !kv_write_fails) && kv_frees == 1 )

#endif
