/* Trusted stub: qsort() has no body in CBMC's library.  Every qsort call in kalign sorts an array of
 * POINTERS (element size == sizeof(void*)); this is an insertion sort calling the REAL comparator.
 * CBMC mode only; natively libc's qsort runs.  Bounded by the number of elements (unwound). */
#ifndef KV_STUBS_QSORT_H
#define KV_STUBS_QSORT_H
#ifdef KV_CBMC
void qsort(void* base, size_t n, size_t size, int (*cmp)(const void*, const void*))
{
        void** a = (void**)base;
        size_t i, j;
        __CPROVER_assert(size == sizeof(void*), "qsort stub: element is a pointer");
        for(i = 1; i < n; i++){
                void* key = a[i];
                j = i;
                while(j > 0 && cmp(&a[j-1], &key) > 0){
                        a[j] = a[j-1];
                        j--;
                }
                a[j] = key;
        }
}
#endif
#endif
