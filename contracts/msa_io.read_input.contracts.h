/* Step contracts for checking kalign_read_input() (msa_io.c) as a protocol (C04, C05): every callee is replaced by a
 * contract (goto-instrument --dfcc --replace-call-with-contract).  What is pinned, from the properties:
 *   - the file is read into the line buffer exactly once;
 *   - "was anything read": the format is sniffed and a reader is run whenever the buffer holds at least one non-empty
 *     line (C04: blank lines and padding do not matter; C05: otherwise the call reports "nothing read" by leaving *msa as it was... see below);
 *   - the reader matching the sniffed format is called on that buffer, then the kind of sequence and the alignment status
 *     are determined and the member lists set up, on the msa the reader returned;
 *   - with an msa from earlier inputs the new records are merged into it (C04: several input files) and the temporary msa
 *     is released; otherwise the new msa is handed out;  the line buffer is released exactly once.                      */
#ifndef MSA_IO_READ_INPUT_CONTRACTS_H
#define MSA_IO_READ_INPUT_CONTRACTS_H
int kv_rstep;          /* last completed step */
int kv_fmt;            /* ghost: what the sniffing returns */
int kv_nlines;         /* ghost: number of lines in the file */
int kv_len0, kv_len1;  /* ghost: lengths of the first two lines */
int kv_buf_freed, kv_m_freed, kv_merged;
static struct in_line kv_l0, kv_l1;
static struct in_line* kv_lines_arr[2];
static struct in_buffer kv_buf;
static struct msa kv_msa_new, kv_msa_old;
#define KV_ANY_NONEMPTY ((kv_nlines >= 1 && kv_len0 > 0) || (kv_nlines >= 2 && kv_len1 > 0))

#ifdef KV_CBMC
static int read_file_stdin(struct in_buffer** buffer,char* infile)
__CPROVER_requires(kv_rstep == 0 && *buffer == NULL) __CPROVER_assigns(kv_rstep, *buffer)
__CPROVER_ensures(kv_rstep == 1 && __CPROVER_return_value == OK && *buffer == &kv_buf);
static int detect_alignment_format(struct in_buffer* b,int* type)
__CPROVER_requires(kv_rstep == 1 && b == &kv_buf) __CPROVER_assigns(kv_rstep, *type)
__CPROVER_ensures(kv_rstep == 2 && __CPROVER_return_value == OK && *type == kv_fmt);
static int read_fasta(struct in_buffer* b, struct msa** msa)
__CPROVER_requires(kv_rstep == 2 && kv_fmt == FORMAT_FA && b == &kv_buf && *msa == NULL) __CPROVER_assigns(kv_rstep, *msa)
__CPROVER_ensures(kv_rstep == 3 && __CPROVER_return_value == OK && *msa == &kv_msa_new);
static int read_msf(struct in_buffer* b, struct msa** msa)
__CPROVER_requires(kv_rstep == 2 && kv_fmt == FORMAT_MSF && b == &kv_buf && *msa == NULL) __CPROVER_assigns(kv_rstep, *msa)
__CPROVER_ensures(kv_rstep == 3 && __CPROVER_return_value == OK && *msa == &kv_msa_new);
static int read_clu(struct in_buffer* b, struct msa** msa)
__CPROVER_requires(kv_rstep == 2 && kv_fmt == FORMAT_CLU && b == &kv_buf && *msa == NULL) __CPROVER_assigns(kv_rstep, *msa)
__CPROVER_ensures(kv_rstep == 3 && __CPROVER_return_value == OK && *msa == &kv_msa_new);
int detect_alphabet(struct msa* msa)
__CPROVER_requires(kv_rstep == 3 && msa == &kv_msa_new) __CPROVER_assigns(kv_rstep) __CPROVER_ensures(kv_rstep == 4 && __CPROVER_return_value == OK);
int detect_aligned(struct msa* msa)
__CPROVER_requires(kv_rstep == 4 && msa == &kv_msa_new) __CPROVER_assigns(kv_rstep) __CPROVER_ensures(kv_rstep == 5 && __CPROVER_return_value == OK);
int set_sip_nsip(struct msa* msa)
__CPROVER_requires(kv_rstep == 5 && msa == &kv_msa_new) __CPROVER_assigns(kv_rstep) __CPROVER_ensures(kv_rstep == 6 && __CPROVER_return_value == OK);
static void free_in_buffer(struct in_buffer* b)
__CPROVER_requires(b == &kv_buf && kv_buf_freed == 0) __CPROVER_assigns(kv_buf_freed) __CPROVER_ensures(kv_buf_freed == 1);
int merge_msa(struct msa** dest, struct msa* src)
__CPROVER_requires(kv_rstep == 6 && *dest == &kv_msa_old && src == &kv_msa_new) __CPROVER_assigns(kv_merged) __CPROVER_ensures(kv_merged == 1 && __CPROVER_return_value == OK);
void kalign_free_msa(struct msa* msa)
__CPROVER_requires(msa == &kv_msa_new && kv_merged == 1 && kv_m_freed == 0) __CPROVER_assigns(kv_m_freed) __CPROVER_ensures(kv_m_freed == 1);
#endif
#endif
