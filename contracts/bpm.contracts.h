/* Contracts for lib/src/bpm.c  (C11)
 * Reference ("the edit distance it stands for"): Sellers' semi-global dynamic programme, written once here:
 *     D[0][j] = 0,  D[r][0] = r,
 *     D[r][j] = min( D[r-1][j-1] + (p[r-1] != t[j-1]),  D[r][j-1] + 1,  D[r-1][j] + 1 )
 * and the value the kernels stand for is   min_{0<=j<=n} D[m][j]   = the minimum over all substrings of the
 * text of the edit distance to the pattern.  The ghost state below holds ONE column D[.][j] and the running
 * minimum; kv_col_step() advances it by one text symbol.  The loop contract of bpm() ties the bit-vectors
 * VP/VN (vertical +1/-1 deltas), diff and k to that column, for ANY text length.                               */
#ifndef BPM_CONTRACTS_H
#define BPM_CONTRACTS_H

#define KV_BPM_ROWS 64
/* largest pattern length covered by a query (the kernel itself takes 1..63); the quantified clauses expand to this many rows */
#ifndef KV_BPM_MAXM
#define KV_BPM_MAXM 63
#endif
int kv_C[KV_BPM_ROWS + 1];     /* ghost column: kv_C[r] = D[r][j]               */
int kv_min;                    /* ghost: min over the columns seen so far of D[m] */

#ifndef KV_MAXN
#define KV_MAXN 100000
#endif

static void kv_col_init(int M)
{
        int r;
        for(r = 0; r <= KV_BPM_ROWS; r++){ kv_C[r] = r; }
        kv_min = M;
}

static void kv_col_step(uint8_t c, const uint8_t* p, int M)
{
        int r;
        int diag = kv_C[0];   /* D[r-1][j-1] */
        kv_C[0] = 0;
        for(r = 1; r <= KV_BPM_MAXM; r++){
                if(r <= M){
                        int old = kv_C[r];
                        int v = diag + ((p[r-1] != c) ? 1 : 0);
                        if(old + 1 < v){ v = old + 1; }
                        if(kv_C[r-1] + 1 < v){ v = kv_C[r-1] + 1; }
                        kv_C[r] = v;
                        diag = old;
                }
        }
        if(kv_C[M] < kv_min){ kv_min = kv_C[M]; }
}

#define K_BIT(x,r) (((x) >> (r)) & 1ul)
/* relation between the Myers bit-vectors and the ghost column, row r (0-based bit) */
#define K_BPM_ROW(VP,VN,r) ( (kv_C[r] >= 0) && (kv_C[r] <= KV_BPM_ROWS) && (kv_C[(r)+1] >= 0) && (kv_C[(r)+1] <= KV_BPM_ROWS) && \
                             (kv_C[(r)+1] - kv_C[r] >= -1) && (kv_C[(r)+1] - kv_C[r] <= 1) && \
                             (K_BIT(VP,r) == ((kv_C[(r)+1] - kv_C[r] == 1) ? 1ul : 0ul)) && \
                             (K_BIT(VN,r) == ((kv_C[(r)+1] - kv_C[r] == -1) ? 1ul : 0ul)) )

#ifdef KV_CBMC
uint8_t bpm(const uint8_t* t,const uint8_t* p,int n,int m)
__CPROVER_requires(1 <= m && m <= KV_BPM_MAXM && 0 <= n && n <= KV_MAXN)
__CPROVER_requires(__CPROVER_is_fresh(t, n) && __CPROVER_is_fresh(p, m))
__CPROVER_requires(__CPROVER_forall { int kv_r; (0 <= kv_r && kv_r < KV_BPM_MAXM) ==> (kv_r >= m || p[kv_r] < 13) })
__CPROVER_assigns(__CPROVER_object_whole(kv_C), kv_min)
__CPROVER_ensures(__CPROVER_return_value == kv_min)
__CPROVER_ensures(kv_min >= 0 && kv_min <= m)
;
#endif
#endif
