/* Contracts used to check aln_runner_serial() (C07 / C02 ordering): the kernels and aln_continue are replaced by contracts
 * whose preconditions pin the ORDER (ghost phase counter) and the ARGUMENTS of each call:
 *   phase 0 -> forward  on rows [starta, mid)                         (m->enda == mid)
 *   phase 1 -> backward on rows [mid, enda)                           (m->starta_2 == mid, m->enda_2 == old enda)
 *   phase 2 -> meetup with the coordinates of the whole block and the middle row
 *   phase 3 -> aln_continue with the boundary states the block was entered with and the (meet, transition) just found
 * mid = starta + (enda - starta) / 2.                                                                                   */
#ifndef ALN_RUNNER_CONTRACTS_H
#define ALN_RUNNER_CONTRACTS_H
int kv_phase;
int kv_kind;                 /* which kernel family the operands select: 0 seq-seq, 1 profile-profile, 2 seq-profile */
int kv_sa, kv_ea, kv_sb, kv_eb, kv_mid;
int kv_meet_ret, kv_t_ret;
float kv_in6[6];
#define K_FEQ2(x,y) (*(uint32_t*)&(x) == *(uint32_t*)&(y))
#define K_FWD_PRE(m,k) (kv_phase == 0 && kv_kind == (k) && (m)->starta == kv_sa && (m)->enda == kv_mid && (m)->startb == kv_sb && (m)->endb == kv_eb)
#define K_BWD_PRE(m,k) (kv_phase == 1 && kv_kind == (k) && (m)->starta_2 == kv_mid && (m)->enda_2 == kv_ea && (m)->startb == kv_sb && (m)->endb == kv_eb)
#define K_MEET_PRE(m,oc,k) (kv_phase == 2 && kv_kind == (k) && (oc)[0] == kv_sa && (oc)[1] == kv_ea && (oc)[2] == kv_sb && (oc)[3] == kv_eb && (oc)[4] == kv_mid)
#ifdef KV_CBMC
#define K_KERNEL3(name, k) \
int aln_##name##_foward(struct aln_mem* m) __CPROVER_requires(K_FWD_PRE(m,k)) __CPROVER_assigns(kv_phase) __CPROVER_ensures(kv_phase == 1); \
int aln_##name##_backward(struct aln_mem* m) __CPROVER_requires(K_BWD_PRE(m,k)) __CPROVER_assigns(kv_phase) __CPROVER_ensures(kv_phase == 2); \
int aln_##name##_meetup(struct aln_mem* m,int old_cor[],int* meet,int* t,float* score) __CPROVER_requires(K_MEET_PRE(m,old_cor,k)) \
        __CPROVER_assigns(kv_phase, *meet, *t, *score) __CPROVER_ensures(kv_phase == 3 && *meet == kv_meet_ret && *t == kv_t_ret);
K_KERNEL3(seqseq, 0)
K_KERNEL3(profileprofile, 1)
K_KERNEL3(seqprofile, 2)
#endif
#endif
