/* msa_build.h -- harness-side construction of msa objects of a CONCRETE shape with
 * symbolic contents (rule: no symbolic-size malloc inside unwound harnesses).
 * Everything that matters to a check is drawn through kv_in_*() so that a
 * counterexample can be replayed natively. */
#ifndef KV_MSA_BUILD_H
#define KV_MSA_BUILD_H
#include <stdlib.h>

/* a sequence record with `len` residues in buffers of `alloc_len`; contents NOT set */
static struct msa_seq* kv_mk_seq_raw(int len, int alloc_len)
{
        struct msa_seq* s = malloc(sizeof(struct msa_seq));
        __CPROVER_assume(s != NULL);
        s->name = malloc(MSA_NAME_LEN);
        s->seq = malloc((size_t)alloc_len);
        s->s = malloc((size_t)alloc_len);
        s->gaps = malloc(sizeof(int) * ((size_t)alloc_len + 1));
        __CPROVER_assume(s->name && s->seq && s->s && s->gaps);
        s->len = len;
        s->alloc_len = alloc_len;
        s->rank = 0;
        s->name[0] = 0;
        return s;
}

static struct msa* kv_mk_msa_raw(int numseq)
{
        struct msa* m = malloc(sizeof(struct msa));
        int i;
        __CPROVER_assume(m != NULL);
        m->sequences = malloc(sizeof(struct msa_seq*) * (size_t)numseq);
        __CPROVER_assume(m->sequences != NULL);
        m->sip = NULL; m->nsip = NULL; m->plen = NULL;
        m->run_parallel = 0;
        m->numseq = numseq; m->alloc_numseq = numseq; m->num_profiles = 0;
        m->aligned = 0; m->alnlen = 0; m->L = 0; m->biotype = ALN_BIOTYPE_UNDEF; m->quiet = 1;
        for(i = 0; i < 128; i++){ m->letter_freq[i] = 0; }
        return m;
}
#endif
