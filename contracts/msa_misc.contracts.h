/* Contracts for lib/src/msa_misc.c  (C15 / C05)
 * GCGchecksum(seq, len): the GCG row checksum printed in MSF files ("Check: %4d").  For a row of ANY length whose bytes are
 * ASCII (data invariant of finalised rows: letters and '-'), the running sum never overflows and the result is a number of
 * at most four digits, 0..9999 -- what the MSF "Check:" field and the modulo-10000 total of GCGMultchecksum rely on.
 * (That the value IS the GCG checksum of the whole row, case-insensitively, is checked against an independent
 * implementation in the bounded query C15.writers.)                                                                      */
#ifndef MSA_MISC_CONTRACTS_H
#define MSA_MISC_CONTRACTS_H
#ifndef KV_MAXROW
#define KV_MAXROW 100000
#endif
#ifdef KV_CBMC
int GCGchecksum(char *seq, int len)
__CPROVER_requires(len >= 0 && len <= KV_MAXROW)
__CPROVER_requires(__CPROVER_is_fresh(seq, (size_t)len + 1))
__CPROVER_assigns()
__CPROVER_ensures(0 <= __CPROVER_return_value && __CPROVER_return_value <= 9999);
#endif
#endif
