/* Trusted stub (assumed contract on libc): snprintf(str, size, ...) writes an arbitrary NUL-terminated string of fewer
 * than `size` bytes into str and returns a non-negative count.  (CBMC's built-in model does not guarantee the
 * terminator.)  CBMC mode only; used where only the "defined string" property of the result matters. */
#ifndef KV_STUBS_SNPRINTF_H
#define KV_STUBS_SNPRINTF_H
#ifdef KV_CBMC
size_t nondet_size_t(void);
int snprintf(char* str, size_t size, const char* fmt, ...)
{
        int r = nondet_int();
        (void)fmt;
        if(size > 0){
                size_t n = nondet_size_t();
                __CPROVER_assume(n < size);
                __CPROVER_havoc_slice(str, size);
                str[n] = 0;
        }
        __CPROVER_assume(r >= 0);
        return r;
}
#endif
#endif
