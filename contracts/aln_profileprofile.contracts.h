/* Frame contracts for the task bodies of the parallel Hirschberg step (C02): the forward half writes nothing but the
 * forward state array, the backward half nothing but the backward state array, the meet-in-the-middle step nothing but
 * its three out-parameters.  With the task / taskwait order (static fact omp_hirschberg_order) this makes the two
 * tasks free of write/write and read/write conflicts on everything but m->f / m->b, each of which has one writer.    */
#ifndef ALN_PROFILEPROFILE_CONTRACTS_H
#define ALN_PROFILEPROFILE_CONTRACTS_H
#ifdef KV_CBMC
int aln_profileprofile_foward(struct aln_mem* m)
__CPROVER_requires(m != NULL)
__CPROVER_assigns(__CPROVER_object_whole(m->f))
__CPROVER_ensures(__CPROVER_return_value == OK)
;
int aln_profileprofile_backward(struct aln_mem* m)
__CPROVER_requires(m != NULL)
__CPROVER_assigns(__CPROVER_object_whole(m->b))
__CPROVER_ensures(__CPROVER_return_value == OK)
;
int aln_profileprofile_meetup(struct aln_mem* m,int old_cor[],int* meet,int* t,float* score)
__CPROVER_requires(m != NULL)
__CPROVER_assigns(*meet, *t, *score)
__CPROVER_ensures(__CPROVER_return_value == OK)
__CPROVER_ensures(*meet == -1 || (*meet >= old_cor[2] && *meet <= old_cor[3]))
__CPROVER_ensures(*t == -1 || *t == 1 || *t == 2 || *t == 3 || *t == 5 || *t == 6 || *t == 7)
;
#endif
#endif
