/* meetup_spec.h -- the meet-in-the-middle rule of the Hirschberg step, written once for all three kernels (C07).
 * Given the forward states f[j] (rows above the middle row) and backward states b[j] (rows below), the step returns the
 * column c and transition t of a best way to cross the middle row, in this candidate order, first maximum wins:
 *   for every column i in [startb, endb):   1: a->a    f.a + b.a
 *                                           2: a->ga   f.a + b.ga - oa          (oa: opening a gap in the row operand)
 *                                           3: a->gb   f.a + b.gb - ob          (ob: opening a gap in the column operand)
 *                                           5: ga->a   f.ga + b.a - oa
 *                                           6: gb->gb  f.gb + b.gb - (eb, or tb if the block touches the start of b)
 *                                           7: gb->a   f.gb + b.a - ob
 *   at column endb:                         3: a->gb,  6: gb->gb (tb if the block touches the end of b)
 * every candidate is reduced by the tie-breaker |middle - i| / 1000 (prefers columns near the middle of the block).     */
#ifndef KV_MEETUP_SPEC_H
#define KV_MEETUP_SPEC_H
struct kv_meet { int c; int t; float score; };
static float kv_absf(float x){ return x < 0.0f ? -x : x; }
#define KV_TRY(val, tt) do{ float v_ = (val); if(v_ > r.score){ r.score = v_; r.t = (tt); r.c = i; } }while(0)
static struct kv_meet spec_meetup(const struct states* f, const struct states* b, int startb, int endb, int at_start, int at_end,
                                  float oa, float ob, float eb, float tb)
{
        struct kv_meet r;
        float middle = (float)(endb - startb) / 2.0F + (float)startb;
        float sub;
        int i;
        r.c = -1; r.t = -1; r.score = -FLT_MAX;
        for(i = startb; i < endb; i++){
                sub = kv_absf(middle - (float)i);
                sub /= 1000.0F;
                KV_TRY(f[i].a + b[i].a - sub, 1);
                KV_TRY(f[i].a + b[i].ga - oa - sub, 2);
                KV_TRY(f[i].a + b[i].gb - ob - sub, 3);
                KV_TRY(f[i].ga + b[i].a - oa - sub, 5);
                KV_TRY(f[i].gb + b[i].gb - (at_start ? tb : eb) - sub, 6);
                KV_TRY(f[i].gb + b[i].a - ob - sub, 7);
        }
        i = endb;
        sub = kv_absf(middle - (float)i);
        sub /= 1000.0F;
        KV_TRY(f[i].a + b[i].gb - ob - sub, 3);
        KV_TRY(f[i].gb + b[i].gb - (at_end ? tb : eb) - sub, 6);
        return r;
}
/* a state value: "impossible" (-FLT_MAX) or a small whole number */
static float kv_state_value(void)
{
        int dead = kv_in_int() != 0;
        int k = kv_in_int();
        KV_ASSUME(k >= -30 && k <= 30);
        return dead ? -FLT_MAX : (float)k;
}
#endif
