/* Contracts for lib/src/msa_cmp.c  (C17)
 * compare_pair(rowi_ref,rowj_ref,rowi_test,rowj_test,width_ref,width_test,stat) adds, for ONE pair of rows,
 *   reference relations : one per residue of either row (partner residue, or gap)      -> ref_total_*
 *   test relations      : the same count in the test alignment                          -> test_total_*
 *   reproduced relations: at most one per reference relation                            -> identical_*
 * so that 0 <= identical <= reference (score in [0,100]) and reference > 0 when a row has a residue. */
#ifndef MSA_CMP_CONTRACTS_H
#define MSA_CMP_CONTRACTS_H

#ifndef KV_MAXW
#define KV_MAXW 1000
#endif

/* ghost state written by injected ghost statements */
uint64_t kv_cp_ref0, kv_cp_test0, kv_cp_id0, kv_cp_al0, kv_cp_rg0, kv_cp_ta0, kv_cp_tg0, kv_cp_ia0, kv_cp_ig0;
int kv_p1A, kv_p2A;
int kv_w1;   /* ghost witness: a column of the reference in which row i has a residue */

/* isalpha in the C locale, as an operator-only expression (calls are not allowed in loop invariants) */
#define K_ISALPHA(c) (((c) >= 'A' && (c) <= 'Z') || ((c) >= 'a' && (c) <= 'z'))
#define K_CP_REF(s)  ((s)->ref_total_aligned_pairs + (s)->ref_total_gap_pairs)
#define K_CP_TEST(s) ((s)->test_total_aligned_pairs + (s)->test_total_gap_pairs)
#define K_CP_ID(s)   ((s)->identical_aligned + (s)->identical_gaps)
#define K_CP_SMALL(s) ((s)->ref_total_aligned_pairs < (1ULL << 60) && (s)->ref_total_gap_pairs < (1ULL << 60) && (s)->test_total_aligned_pairs < (1ULL << 60) && \
                       (s)->test_total_gap_pairs < (1ULL << 60) && (s)->identical_aligned < (1ULL << 60) && (s)->identical_gaps < (1ULL << 60))

#endif /* MSA_CMP_CONTRACTS_H */

/* second part: include again AFTER msa_cmp.c with KV_PART2 defined (needs struct cmp_stats) */
#if defined(KV_PART2) && !defined(MSA_CMP_CONTRACTS_H2)
#define MSA_CMP_CONTRACTS_H2
#ifdef KV_CBMC
static int compare_pair(char *seq1A, char *seq2A, char *seq1B, char *seq2B, int len_a, int len_b, struct cmp_stats *stat)
__CPROVER_requires(len_a > 0 && len_a <= KV_MAXW && len_b > 0 && len_b <= KV_MAXW)
__CPROVER_requires(__CPROVER_is_fresh(seq1A, len_a) && __CPROVER_is_fresh(seq2A, len_a))
__CPROVER_requires(__CPROVER_is_fresh(seq1B, len_b) && __CPROVER_is_fresh(seq2B, len_b))
__CPROVER_requires(__CPROVER_is_fresh(stat, sizeof(*stat)))
__CPROVER_requires(K_CP_SMALL(stat))
__CPROVER_assigns(*stat, kv_cp_ref0, kv_cp_test0, kv_cp_id0, kv_cp_al0, kv_cp_rg0, kv_cp_ta0, kv_cp_tg0, kv_cp_ia0, kv_cp_ig0, kv_p1A, kv_p2A)
__CPROVER_ensures(__CPROVER_return_value == OK)
/* (kv_cp_*0 are the entry values of the counters, snapshotted by the injected ghost statement at function entry) */
/* reproduced <= reference relations, for this pair */
__CPROVER_ensures(K_CP_ID(stat) >= kv_cp_id0 && K_CP_ID(stat) - kv_cp_id0 <= K_CP_REF(stat) - kv_cp_ref0)
/* same number of relations in reference and test (same sequences) */
__CPROVER_ensures(K_CP_REF(stat) - kv_cp_ref0 == K_CP_TEST(stat) - kv_cp_test0)
/* a row with a residue contributes at least one reference relation; never more than 2 per column */
__CPROVER_ensures(K_CP_REF(stat) >= kv_cp_ref0 && K_CP_REF(stat) - kv_cp_ref0 <= 2 * (uint64_t)len_a)
__CPROVER_ensures(!(0 <= kv_w1 && kv_w1 < len_a && K_ISALPHA(seq1A[kv_w1])) || K_CP_REF(stat) > kv_cp_ref0)
/* every counter only grows, by at most 2 per column */
__CPROVER_ensures(stat->ref_total_aligned_pairs >= kv_cp_al0 && stat->ref_total_aligned_pairs - kv_cp_al0 <= 2 * (uint64_t)KV_MAXW && stat->ref_total_gap_pairs >= kv_cp_rg0 && stat->ref_total_gap_pairs - kv_cp_rg0 <= 2 * (uint64_t)KV_MAXW)
__CPROVER_ensures(stat->test_total_aligned_pairs >= kv_cp_ta0 && stat->test_total_aligned_pairs - kv_cp_ta0 <= 2 * (uint64_t)KV_MAXW && stat->test_total_gap_pairs >= kv_cp_tg0 && stat->test_total_gap_pairs - kv_cp_tg0 <= 2 * (uint64_t)KV_MAXW)
__CPROVER_ensures(stat->identical_aligned >= kv_cp_ia0 && stat->identical_aligned - kv_cp_ia0 <= 2 * (uint64_t)KV_MAXW && stat->identical_gaps >= kv_cp_ig0 && stat->identical_gaps - kv_cp_ig0 <= 2 * (uint64_t)KV_MAXW)
/* the snapshots are the entry values */
__CPROVER_ensures(kv_cp_al0 == __CPROVER_old(stat->ref_total_aligned_pairs) && kv_cp_rg0 == __CPROVER_old(stat->ref_total_gap_pairs) && kv_cp_ta0 == __CPROVER_old(stat->test_total_aligned_pairs) && kv_cp_tg0 == __CPROVER_old(stat->test_total_gap_pairs) && kv_cp_ia0 == __CPROVER_old(stat->identical_aligned) && kv_cp_ig0 == __CPROVER_old(stat->identical_gaps))
__CPROVER_ensures(kv_cp_ref0 == kv_cp_al0 + kv_cp_rg0 && kv_cp_test0 == kv_cp_ta0 + kv_cp_tg0 && kv_cp_id0 == kv_cp_ia0 + kv_cp_ig0)
/* aligned relations come in pairs */
__CPROVER_ensures((stat->ref_total_aligned_pairs - kv_cp_al0) % 2 == 0)
;
#endif
#endif
