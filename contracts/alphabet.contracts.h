/* Contracts for lib/src/alphabet.c  (C14 case / T-U, C05 code range)
 *   create_alphabet(type), type one of the five ALPHA_* constants:
 *   - L is the size the constant is named after;
 *   - every entry of to_internal is -1 or a code in [0,L);   only letters have codes;
 *   - upper and lower case of a letter have the same code                (C14)
 *   - in the nucleotide alphabet U and T have the same, defined code     (C14)
 *   - the wildcard letter (N for nucleotides, X for proteins) has a code (used by the
 *     repair of convert_msa_to_internal for letters outside the alphabet)
 * Ghost index kv_ac: one arbitrary table position 0..127.                              */
#ifndef ALPHABET_CONTRACTS_H
#define ALPHABET_CONTRACTS_H

int kv_ac;

#define K_ALPHA_TYPE_OK(t) ((t)==ALPHA_defPROTEIN || (t)==ALPHA_ambigiousPROTEIN || (t)==ALPHA_defDNA || (t)==ALPHA_redPROTEIN || (t)==ALPHA_redPROTEIN2)
#define K_IS_UPPER(c) ((c) >= 'A' && (c) <= 'Z')
#define K_IS_LOWER(c) ((c) >= 'a' && (c) <= 'z')
#define K_IS_LETTER(c) (K_IS_UPPER(c) || K_IS_LOWER(c))

/* L is what kalign_run/bpm/MSF writer rely on for the alphabets kalign uses; ALPHA_redPROTEIN2 (never used by the
   library; 6 classes under a constant named 8) is exempt from this clause -- see DESIGN.md, false alarm FA-1 */
#define K_POST_ALPHA_L(a,t)        ((a) == NULL || (t) == ALPHA_redPROTEIN2 || (a)->L == (t))
#define K_POST_ALPHA_RANGE(a,c)    ((a) == NULL || ((a)->to_internal[c] >= -1 && (a)->to_internal[c] < (a)->L))
#define K_POST_ALPHA_NONLETTER(a,c)((a) == NULL || K_IS_LETTER(c) || (a)->to_internal[c] == -1)
#define K_POST_ALPHA_CASE(a,c)     ((a) == NULL || !K_IS_UPPER(c) || (a)->to_internal[c] == (a)->to_internal[(c)+32])
#define K_POST_ALPHA_TU(a,t)       ((a) == NULL || (t) != ALPHA_defDNA || ((a)->to_internal['U'] == (a)->to_internal['T'] && (a)->to_internal['T'] >= 0))
#define K_POST_ALPHA_WILD(a,t)     ((a) == NULL || ((t) == ALPHA_defDNA ? ((a)->to_internal['N'] >= 0 && (a)->to_internal['N'] < (a)->L) : ((a)->to_internal['X'] >= 0 && (a)->to_internal['X'] < (a)->L)))
/* the 20 amino acids / 4+1 nucleotides all have codes */
#define K_IS_AA(c)  ((c)=='A'||(c)=='C'||(c)=='D'||(c)=='E'||(c)=='F'||(c)=='G'||(c)=='H'||(c)=='I'||(c)=='K'||(c)=='L'||(c)=='M'||(c)=='N'||(c)=='P'||(c)=='Q'||(c)=='R'||(c)=='S'||(c)=='T'||(c)=='V'||(c)=='W'||(c)=='Y'||(c)=='B'||(c)=='Z'||(c)=='X')
#define K_IS_NUC(c) ((c)=='A'||(c)=='C'||(c)=='G'||(c)=='T'||(c)=='U'||(c)=='N'||(c)=='R'||(c)=='Y'||(c)=='S'||(c)=='W'||(c)=='K'||(c)=='M'||(c)=='B'||(c)=='D'||(c)=='H'||(c)=='V')
#define K_POST_ALPHA_CORE(a,t,c)   ((a) == NULL || !((t) == ALPHA_defDNA ? K_IS_NUC(c) : K_IS_AA(c)) || (a)->to_internal[c] >= 0)

#ifdef KV_CBMC
struct alphabet* create_alphabet(int type)
__CPROVER_requires(K_ALPHA_TYPE_OK(type))
__CPROVER_requires(0 <= kv_ac && kv_ac < 128)
__CPROVER_assigns()
__CPROVER_ensures(__CPROVER_return_value == NULL || __CPROVER_is_fresh(__CPROVER_return_value, sizeof(struct alphabet)))
__CPROVER_ensures(K_POST_ALPHA_L(__CPROVER_return_value, type))
__CPROVER_ensures(K_POST_ALPHA_RANGE(__CPROVER_return_value, kv_ac))
__CPROVER_ensures(K_POST_ALPHA_NONLETTER(__CPROVER_return_value, kv_ac))
__CPROVER_ensures(K_POST_ALPHA_CASE(__CPROVER_return_value, kv_ac))
__CPROVER_ensures(K_POST_ALPHA_TU(__CPROVER_return_value, type))
__CPROVER_ensures(K_POST_ALPHA_WILD(__CPROVER_return_value, type))
__CPROVER_ensures(K_POST_ALPHA_CORE(__CPROVER_return_value, type, kv_ac))
/* the range clause for every table entry (constant bound, expanded by the SAT back end) */
__CPROVER_ensures(__CPROVER_return_value == NULL || __CPROVER_forall { int kv_k; (0 <= kv_k && kv_k < 128) ==> (__CPROVER_return_value->to_internal[kv_k] >= -1 && __CPROVER_return_value->to_internal[kv_k] < __CPROVER_return_value->L) })
;
#endif
#endif
