/* Contracts for lib/src/aln_param.c  (property C09; constructor part of C16/C05)
 *
 * Taken from the property statement and README.md:60-74, not from the code:
 *   - each alignment type selects its documented substitution scores and
 *     gap penalties;
 *   - an explicit gpo / gpe / tgpe (>= 0) replaces that one value and nothing else;
 *   - a type that does not fit the kind of sequence is rejected.
 * The contract is a re-declaration; the body it is enforced on is the one in
 * /repo/lib/src/aln_param.c, #included verbatim by the harness.
 */
#ifndef ALN_PARAM_CONTRACTS_H
#define ALN_PARAM_CONTRACTS_H

#include "c09_tables.h"

/* ghost indices: one arbitrary cell of the 23x23 matrix */
int kv_gi;
int kv_gj;

#define K_IS_NUC_TYPE(t)  ((t)==KALIGN_TYPE_DNA || (t)==KALIGN_TYPE_DNA_INTERNAL || (t)==KALIGN_TYPE_RNA)
#define K_IS_PROT_TYPE(t) ((t)==KALIGN_TYPE_PROTEIN || (t)==KALIGN_TYPE_PROTEIN_DIVERGENT)

/* "fits": nucleotide type (or auto) on nucleotides, protein type (or auto) on protein */
#define K_FITS(bio,t) ( ((bio)==ALN_BIOTYPE_DNA     && (K_IS_NUC_TYPE(t)  || (t)==KALIGN_TYPE_UNDEFINED)) || \
                        ((bio)==ALN_BIOTYPE_PROTEIN && (K_IS_PROT_TYPE(t) || (t)==KALIGN_TYPE_UNDEFINED)) )

/* which documented parameter set: 0 dna, 1 internal, 2 rna, 3 CorBLOSUM66_13plus, 4 gonnet250.
   README: rna is the nucleotide default, CorBLOSUM66_13plus the protein default */
#define K_SEL(bio,t) ( (bio)==ALN_BIOTYPE_DNA ? ((t)==KALIGN_TYPE_DNA ? 0 : (t)==KALIGN_TYPE_DNA_INTERNAL ? 1 : 2) \
                                              : ((t)==KALIGN_TYPE_PROTEIN_DIVERGENT ? 4 : 3) )

/* documented default penalties (README.md:66-71; aln_param.c table comments for rna/protein) */
#define K_DEF_GPO(s)  ((s)==0 ? 8.0f : (s)==1 ? 8.0f : (s)==2 ? 217.0f        : (s)==3 ? 5.5f : 55.0f)
#define K_DEF_GPE(s)  ((s)==0 ? 6.0f : (s)==1 ? 6.0f : (s)==2 ? (float)39.4   : (s)==3 ? 2.0f : 8.0f)
#define K_DEF_TGPE(s) ((s)==0 ? 0.0f : (s)==1 ? 8.0f : (s)==2 ? (float)292.6  : (s)==3 ? 1.0f : 4.0f)

/* RNA substitution scores: 283 + offset on A,C,G,T ; 283 against / between N ; (aln_param.c comments) */
static const int kv_spec_rna_off[5][5] = {
        {  91,-114, -31,-123, 0},
        {-114, 100,-125, -31, 0},
        { -31,-125, 100,-114, 0},
        {-123, -31,-114,  91, 0},
        {   0,   0,   0,   0, 0},
};

#define K_IN5(i,j) ((i) < 5 && (j) < 5)
#define K_SUBM(s,i,j) ( (s)==0 || (s)==1 ? (K_IN5(i,j) ? ((i)==(j) ? 5.0f : -4.0f) : 0.0f) : \
                        (s)==2 ? (K_IN5(i,j) ? (float)(283 + kv_spec_rna_off[(i) < 5 ? (i) : 0][(j) < 5 ? (j) : 0]) : 0.0f) : \
                        (s)==3 ? (float) kv_spec_CorBLOSUM66_13plus[i][j] : (float) kv_spec_gon250mt[i][j] )

/* explicit value (>= 0) replaces that one value and nothing else */
#define K_OVR(given,def) ((given) >= 0.0f ? (given) : (def))

#define K_POST_INIT_STATUS(ret,bio,t)          ( ((ret) == OK) == (K_FITS(bio,t) ? 1 : 0) )
#define K_POST_INIT_GPO(ret,ap,bio,t,gpo)      ( (ret) != OK || (ap)->gpo  == K_OVR(gpo,  K_DEF_GPO (K_SEL(bio,t))) )
#define K_POST_INIT_GPE(ret,ap,bio,t,gpe)      ( (ret) != OK || (ap)->gpe  == K_OVR(gpe,  K_DEF_GPE (K_SEL(bio,t))) )
#define K_POST_INIT_TGPE(ret,ap,bio,t,tgpe)    ( (ret) != OK || (ap)->tgpe == K_OVR(tgpe, K_DEF_TGPE(K_SEL(bio,t))) )
#define K_POST_INIT_SUBM(ret,ap,bio,t,i,j)     ( (ret) != OK || (ap)->subm[i][j] == K_SUBM(K_SEL(bio,t),i,j) )
#define K_POST_INIT_NTHREADS(ret,ap,n)         ( (ret) != OK || (ap)->nthreads == (n) )

#ifdef KV_CBMC
int aln_param_init(struct aln_param **aln_param,int biotype , int n_threads, int type, float gpo, float gpe, float tgpe)
__CPROVER_requires(__CPROVER_is_fresh(aln_param, sizeof(*aln_param)))
__CPROVER_requires(type >= KALIGN_TYPE_DNA && type <= KALIGN_TYPE_UNDEFINED)
__CPROVER_requires(0 <= kv_gi && kv_gi < 23 && 0 <= kv_gj && kv_gj < 23)
__CPROVER_assigns(*aln_param)
__CPROVER_ensures(K_POST_INIT_STATUS(__CPROVER_return_value, biotype, type))
__CPROVER_ensures(K_POST_INIT_GPO (__CPROVER_return_value, *aln_param, biotype, type, gpo))
__CPROVER_ensures(K_POST_INIT_GPE (__CPROVER_return_value, *aln_param, biotype, type, gpe))
__CPROVER_ensures(K_POST_INIT_TGPE(__CPROVER_return_value, *aln_param, biotype, type, tgpe))
__CPROVER_ensures(K_POST_INIT_SUBM(__CPROVER_return_value, *aln_param, biotype, type, kv_gi, kv_gj))
__CPROVER_ensures(K_POST_INIT_NTHREADS(__CPROVER_return_value, *aln_param, n_threads))
;
#endif

#endif
