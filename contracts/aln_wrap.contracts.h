/* Contracts for checking kalign_run() (aln_wrap.c) as a PROTOCOL (C01, C04, C09, C16): every callee is replaced by a
 * contract whose precondition pins the step number (ghost kv_step) and the arguments, and whose post-condition advances
 * the step and, when the ghost kv_fail_at names this step, makes the callee fail.  The steps, from the properties:
 *   1 input check (ranks recorded, empties removed)                                  C01
 *   2 de-align   -- exactly when the status is not UNALIGNED                          C04
 *   3 canonical order                                                                  C03
 *   4 internal codes for the guide tree: nucleotide alphabet or reduced protein alphabet, by kind of sequence
 *   5 task list, 6 guide tree
 *   7 (protein only) internal codes of the full protein alphabet
 *   8 scoring parameters from EXACTLY the caller's type / gpo / gpe / tgpe / thread count and the detected kind   C09
 *   9 progressive alignment with those parameters and that task list; status becomes ALIGNED
 *  10 rows rendered (requires status ALIGNED), 11 caller order restored, 12/13 parameters and task list released  C16 */
#ifndef ALN_WRAP_CONTRACTS_H
#define ALN_WRAP_CONTRACTS_H
int kv_step;           /* number of the last completed step */
int kv_fail_at;        /* ghost: the step that fails, or 0 */
int kv_dealigned, kv_status0, kv_bio;
int kv_nthreads, kv_type; float kv_gpo, kv_gpe, kv_tgpe;
int kv_ap_freed, kv_tasks_freed;
static char kv_ap_obj, kv_tasks_obj;
#define KV_AP ((struct aln_param*)&kv_ap_obj)
#define KV_TASKS ((struct aln_tasks*)&kv_tasks_obj)
#define K_B(x) (*(uint32_t*)&(x))
#define K_RET(step) (__CPROVER_return_value == ((kv_fail_at == (step)) ? FAIL : OK))

#ifdef KV_CBMC
int kalign_essential_input_check(struct msa *msa, int exit_on_error)
__CPROVER_requires(kv_step == 0 && exit_on_error == 0) __CPROVER_assigns(kv_step) __CPROVER_ensures(kv_step == 1 && K_RET(1));
int dealign_msa(struct msa* msa)
__CPROVER_requires(kv_step == 1 && msa->aligned != ALN_STATUS_UNALIGNED) __CPROVER_assigns(kv_dealigned, msa->aligned)
__CPROVER_ensures(kv_dealigned == 1 && msa->aligned == ALN_STATUS_UNALIGNED && K_RET(2));
int msa_sort_len_name(struct msa *m)
__CPROVER_requires(kv_step == 1 && m->aligned == ALN_STATUS_UNALIGNED && kv_dealigned == (kv_status0 != ALN_STATUS_UNALIGNED))
__CPROVER_assigns(kv_step) __CPROVER_ensures(kv_step == 3 && K_RET(3));
int convert_msa_to_internal(struct msa* msa, int type)
__CPROVER_requires((kv_step == 3 && type == (kv_bio == ALN_BIOTYPE_DNA ? ALPHA_defDNA : ALPHA_redPROTEIN)) ||
                   (kv_step == 6 && kv_bio == ALN_BIOTYPE_PROTEIN && type == ALPHA_ambigiousPROTEIN))
__CPROVER_assigns(kv_step, msa->L) __CPROVER_ensures(kv_step == __CPROVER_old(kv_step) + 1 && K_RET(kv_step));
int alloc_tasks(struct aln_tasks** tasks,int numseq)
__CPROVER_requires(kv_step == 4) __CPROVER_assigns(kv_step, *tasks) __CPROVER_ensures(kv_step == 5 && K_RET(5) && *tasks == (kv_fail_at == 5 ? __CPROVER_old(*tasks) : KV_TASKS));
int build_tree_kmeans(struct msa* msa, struct aln_tasks** tasks)
__CPROVER_requires(kv_step == 5 && *tasks == KV_TASKS) __CPROVER_assigns(kv_step) __CPROVER_ensures(kv_step == 6 && K_RET(6));
int aln_param_init(struct aln_param **aln_param,int biotype , int n_threads, int type, float gpo, float gpe, float tgpe)
__CPROVER_requires(kv_step == (kv_bio == ALN_BIOTYPE_PROTEIN ? 7 : 6))
__CPROVER_requires(biotype == kv_bio && n_threads == kv_nthreads && type == kv_type && K_B(gpo) == K_B(kv_gpo) && K_B(gpe) == K_B(kv_gpe) && K_B(tgpe) == K_B(kv_tgpe))
__CPROVER_assigns(kv_step, *aln_param) __CPROVER_ensures(kv_step == 8 && K_RET(8) && *aln_param == (kv_fail_at == 8 ? __CPROVER_old(*aln_param) : KV_AP));
int create_msa_tree(struct msa* msa, struct aln_param* ap,struct aln_tasks* t)
__CPROVER_requires(kv_step == 8 && ap == KV_AP && t == KV_TASKS) __CPROVER_assigns(kv_step) __CPROVER_ensures(kv_step == 9 && K_RET(9));
int finalise_alignment(struct msa* msa)
__CPROVER_requires(kv_step == 9 && msa->aligned == ALN_STATUS_ALIGNED) __CPROVER_assigns(kv_step, msa->aligned)
__CPROVER_ensures(kv_step == 10 && K_RET(10) && msa->aligned == (kv_fail_at == 10 ? ALN_STATUS_ALIGNED : ALN_STATUS_FINAL));
int msa_sort_rank(struct msa *m)
__CPROVER_requires(kv_step == 10) __CPROVER_assigns(kv_step) __CPROVER_ensures(kv_step == 11 && K_RET(11));
void aln_param_free(struct aln_param* ap)
__CPROVER_requires(kv_ap_freed == 0 && (ap == NULL || ap == KV_AP) && (ap == KV_AP) == (kv_step >= 8 && kv_fail_at != 8)) __CPROVER_assigns(kv_ap_freed) __CPROVER_ensures(kv_ap_freed == 1);
void free_tasks(struct aln_tasks* tasks)
__CPROVER_requires(kv_tasks_freed == 0 && (tasks == NULL || tasks == KV_TASKS) && (tasks == KV_TASKS) == (kv_step >= 5 && kv_fail_at != 5)) __CPROVER_assigns(kv_tasks_freed) __CPROVER_ensures(kv_tasks_freed == 1);
#endif
#endif
