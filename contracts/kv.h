/* kv.h -- common header of every harness (dual mode).
 *
 *  -DKV_CBMC   : compiled by goto-cc; inputs are nondeterministic, every input
 *                value is the return value of a kv_in_*() call, which the driver
 *                reads back from the counterexample trace, in call order, to
 *                build a replay file.
 *  -DKV_NATIVE : compiled by gcc/clang with sanitizers against the real
 *                sources; inputs are read back, in the same order, from the
 *                replay file named in $KV_REPLAY; KV_CHECK aborts on failure.
 *
 *  Contract post-conditions are written once, as macros over their operands
 *  (K_POST_*), and used both inside __CPROVER_ensures(...) on the
 *  re-declaration of the real function and, natively, inside KV_CHECK(...)
 *  after the call -- so the replay checks the same text the verifier checked.
 */
#ifndef KV_H
#define KV_H

#include <stdint.h>
#include <stddef.h>

#ifdef KV_CBMC

int nondet_int(void);
unsigned nondet_uint(void);
long long nondet_ll(void);
unsigned char nondet_uchar(void);
char nondet_char(void);
float nondet_float(void);
double nondet_double(void);
_Bool nondet_bool(void);

#define KV_ASSUME(c) __CPROVER_assume(c)
#define KV_CHECK(c, msg) __CPROVER_assert((c), "KV_CHECK " msg)
/* must-FAIL reachability obligation: placed after the call under contract */
#define KV_REACH() __CPROVER_assert(0, "KV_REACH")

static inline int kv_in_int(void)
{
        int v = nondet_int();
        return v;
}
static inline long long kv_in_ll(void)
{
        long long v = nondet_ll();
        return v;
}
static inline unsigned char kv_in_u8(void)
{
        unsigned char v = nondet_uchar();
        return v;
}
/* a byte as plain char (no conversion in the harness) */
static inline char kv_in_char(void)
{
        char v = nondet_char();
        return v;
}
static inline float kv_in_float(void)
{
        union { float f; uint32_t u; } x;
        x.u = nondet_uint();
        return x.f;
}
static inline double kv_in_double(void)
{
        union { double f; long long u; } x;
        x.u = nondet_ll();
        return x.f;
}

#else  /* ---------------------------------------------------------- native */

#include <stdio.h>
#include <stdlib.h>
#include <string.h>

static FILE* kv_fp = NULL;
static int kv_failed = 0;

static long long kv_next(void)
{
        char line[512];
        if(!kv_fp){
                const char* p = getenv("KV_REPLAY");
                if(!p){ fprintf(stderr,"KV_REPLAY not set\n"); exit(3); }
                kv_fp = fopen(p,"r");
                if(!kv_fp){ fprintf(stderr,"cannot open %s\n",p); exit(3); }
        }
        while(fgets(line,sizeof line,kv_fp)){
                if(strncmp(line,"in ",3) == 0){
                        return strtoll(line+3,NULL,10);
                }
        }
        /* the trace ends at the failed obligation: if that failure was reproduced we are done */
        if(kv_failed){ fprintf(stderr,"replay inputs end after the reproduced failure\n"); exit(1); }
        fprintf(stderr,"replay file exhausted\n");
        exit(3);
}

#define KV_ASSUME(c) do{ if(!(c)){ fprintf(stderr,"KV_ASSUME false: %s (replay input outside harness domain)\n",#c); exit(4);} }while(0)
#define KV_CHECK(c, msg) do{ if(!(c)){ fprintf(stderr,"KV_CHECK FAILED: %s : %s\n",msg,#c); kv_failed = 1; } }while(0)
#define KV_REACH() do{ fprintf(stderr,"KV_REACH reached, failed=%d\n",kv_failed); }while(0)

static inline int kv_in_int(void){ return (int)kv_next(); }
static inline long long kv_in_ll(void){ return kv_next(); }
static inline unsigned char kv_in_u8(void){ return (unsigned char)kv_next(); }
static inline char kv_in_char(void){ return (char)kv_next(); }
static inline float kv_in_float(void){ union { float f; uint32_t u; } x; x.u = (uint32_t)kv_next(); return x.f; }
static inline double kv_in_double(void){ union { double f; long long u; } x; x.u = kv_next(); return x.f; }

#define __CPROVER_assume(c) KV_ASSUME(c)
#define __CPROVER_assert(c,m) KV_CHECK(c,m)

#endif

#endif
