/* stubs_io.h -- capture stubs for the stdio calls of the three writers (CBMC mode; natively the same functions are
 * provided so that a replay exercises the same capture path and the real libc is not involved).
 *
 *   fprintf  : the four formats the writers use (">%s\n", "%c", "\n", "%s\n") append to the ghost byte buffer kv_out
 *   snprintf : the formats used by write_msa_clu / write_msa_msf are formatted exactly (decimal, width, padding) and the
 *              structured arguments of the two MSF header formats are also RECORDED (declared length, type, checksums)
 *   fopen/fclose/time/localtime_r/strftime : trivial
 * Any other format string is an obligation failure ("unexpected format").  Trusted: that these stubs format like libc
 * for the listed formats.                                                                                            */
#ifndef KV_STUBS_IO_H
#define KV_STUBS_IO_H
#include <stdarg.h>
#include <stdio.h>
#include <string.h>
#include <time.h>

#ifndef KV_OUTMAX
#define KV_OUTMAX 1200
#endif
char kv_out[KV_OUTMAX];
int kv_outn = 0;
int kv_out_overflow = 0;
int kv_bad_format = 0;

/* expected lines for the online comparison of fprintf("%s\\n") output (Clustal / MSF writers) */
#ifndef KV_MAXLINES
#define KV_MAXLINES 24
#endif
#ifndef KV_MAXLINELEN
#define KV_MAXLINELEN 100
#endif
char kv_exp[KV_MAXLINES][KV_MAXLINELEN + 1];
int kv_exp_len[KV_MAXLINES];
int kv_exp_n = 0;
int kv_line_calls = 0;

/* recorded MSF header arguments */
struct kv_msf_rec { int len; int type; int check; int nname; int name_len[8]; int name_check[8]; int name_width[8]; };
struct kv_msf_rec kv_msf;

static void kv_putc(int c)
{
        if(kv_outn < KV_OUTMAX - 1){ kv_out[kv_outn] = (char)c; kv_outn++; }
        else{ kv_out_overflow = 1; }
}
static void kv_puts(const char* s)
{
        int i;
        for(i = 0; i < 400 && s[i] != 0; i++){ kv_putc(s[i]); }
}
static int kv_streq(const char* a, const char* b)
{
        int i;
        for(i = 0; i < 80; i++){
                if(a[i] != b[i]){ return 0; }
                if(a[i] == 0){ return 1; }
        }
        return 0;
}

/* bounded string builder used by the snprintf stub */
struct kv_sb { char* s; size_t cap; size_t n; };
static void sb_putc(struct kv_sb* b, int c)
{
        if(b->cap > 0 && b->n < b->cap - 1){ b->s[b->n] = (char)c; }
        b->n++;
}
static void sb_puts(struct kv_sb* b, const char* s)
{
        int i;
        for(i = 0; i < 400 && s[i] != 0; i++){ sb_putc(b, s[i]); }
}
static void sb_dec(struct kv_sb* b, int v, int minwidth)
{
        char tmp[12];
        int n = 0, i, neg = 0;
        unsigned u;
        if(v < 0){ neg = 1; u = (unsigned)(-(v + 1)) + 1u; }else{ u = (unsigned)v; }
        do{ tmp[n] = (char)('0' + (int)(u % 10u)); n++; u /= 10u; }while(u != 0u && n < 11);
        for(i = n + neg; i < minwidth; i++){ sb_putc(b, ' '); }
        if(neg){ sb_putc(b, '-'); }
        for(i = n - 1; i >= 0; i--){ sb_putc(b, tmp[i]); }
}
/* fixed-width decimal (printf "%<width>d" for 0 <= v < 10^width): every character position is concrete even when
   v is symbolic; a value that does not fit sets kv_dec_overflow */
int kv_dec_overflow = 0;
static void sb_dec_fixed(struct kv_sb* b, int v, int width)
{
        static const int p10[6] = {1, 10, 100, 1000, 10000, 100000};
        int k, lead = 1;
        if(v < 0 || width > 5 || v >= p10[width]){ kv_dec_overflow = 1; }
        for(k = width - 1; k >= 0; k--){
                int d = (v / p10[k]) % 10;
                if(d != 0 || k == 0){ lead = 0; }
                sb_putc(b, lead ? ' ' : '0' + d);
        }
}
static void sb_end(struct kv_sb* b)
{
        if(b->cap > 0){ b->s[b->n < b->cap - 1 ? b->n : b->cap - 1] = 0; }
}

#define KV_FMT_CLU   "Kalign (%s) multiple sequence alignment"
#define KV_FMT_AA    "!!AA_MULTIPLE_ALIGNMENT 1.0"
#define KV_FMT_NA    "!!NA_MULTIPLE_ALIGNMENT 1.0"
#define KV_FMT_SEP   "//"
#define KV_FMT_MSF   " %s  MSF: %d  Type: %c  %s  Check: %d  .."
#define KV_FMT_NAME  " Name: %-*.*s  Len:  %5d  Check: %4d  Weight: %.2f"

int kv_snprintf(char* str, size_t size, const char* fmt, ...)
{
        struct kv_sb b;
        va_list ap;
        b.s = str; b.cap = size; b.n = 0;
        va_start(ap, fmt);
        if(kv_streq(fmt, KV_FMT_CLU)){
                const char* v = va_arg(ap, const char*);
                sb_puts(&b, "Kalign ("); sb_puts(&b, v); sb_puts(&b, ") multiple sequence alignment");
        }else if(kv_streq(fmt, KV_FMT_AA) || kv_streq(fmt, KV_FMT_NA) || kv_streq(fmt, KV_FMT_SEP)){
                sb_puts(&b, fmt);
        }else if(kv_streq(fmt, KV_FMT_MSF)){
                const char* fn = va_arg(ap, const char*);
                int len = va_arg(ap, int);
                int type = va_arg(ap, int);
                const char* date = va_arg(ap, const char*);
                int chk = va_arg(ap, int);
                kv_msf.len = len; kv_msf.type = type; kv_msf.check = chk;
                /* the numbers of this line are only RECORDED (variable-width decimals of symbolic values would make every later
                   position symbolic); the text written is a placeholder that still carries the keyword read_msf looks for */
                sb_putc(&b, ' '); sb_puts(&b, fn); sb_puts(&b, "  MSF: *  Type: *  "); sb_puts(&b, date); sb_puts(&b, "  Check: *  ..");
        }else if(kv_streq(fmt, KV_FMT_NAME)){
                int width = va_arg(ap, int);
                int prec = va_arg(ap, int);
                const char* name = va_arg(ap, const char*);
                int len = va_arg(ap, int);
                int chk = va_arg(ap, int);
                double w = va_arg(ap, double);
                int i, k = 0;
                (void)w;
                if(kv_msf.nname < 8){
                        kv_msf.name_len[kv_msf.nname] = len; kv_msf.name_check[kv_msf.nname] = chk; kv_msf.name_width[kv_msf.nname] = width;
                }
                kv_msf.nname++;
                sb_puts(&b, " Name: ");
                for(i = 0; i < prec && i < 300 && name[i] != 0; i++){ sb_putc(&b, name[i]); k++; }
                for(i = k; i < width; i++){ sb_putc(&b, ' '); }          /* %-*.*s : left justified */
                /* Len / Check are RECORDED (compared as numbers); the text carries placeholders of the right width */
                sb_puts(&b, "  Len:      *  Check:    *  Weight: 1.00");
        }else{
                kv_bad_format = 1;
        }
        va_end(ap);
        sb_end(&b);
        return (int)b.n;
}

int kv_fprintf(FILE* f, const char* fmt, ...)
{
        va_list ap;
        (void)f;
        va_start(ap, fmt);
        if(kv_streq(fmt, ">%s\n")){ const char* s = va_arg(ap, const char*); kv_putc('>'); kv_puts(s); kv_putc('\n'); }
        else if(kv_streq(fmt, "%c")){
#ifdef KV_CBMC
                int c = va_arg(ap, char);      /* CBMC passes the char argument unpromoted */
#else
                int c = va_arg(ap, int);
#endif
                kv_putc(c);
        }
        else if(kv_streq(fmt, "\n")){ kv_putc('\n'); }
        else if(kv_streq(fmt, "%s\n")){
                const char* s = va_arg(ap, const char*);
                if(kv_exp_n > 0){
                        /* online comparison with the expected line (all indices concrete: the line table is an array of
                           pointers, through which the symbolic execution cannot fold string terminators, see DESIGN.md) */
                        int k = kv_line_calls, i;
                        kv_line_calls++;
                        if(k < kv_exp_n && kv_exp_len[k] >= 0){
                                for(i = 0; i < KV_MAXLINELEN; i++){
                                        if(i < kv_exp_len[k]){ KV_CHECK(s[i] == kv_exp[k][i], "written line equals the line the format rules prescribe"); }
                                }
                                KV_CHECK(s[kv_exp_len[k]] == 0, "written line ends where the prescribed line ends");
                        }
                }else{
                        kv_puts(s); kv_putc('\n');
                }
        }
        else{ kv_bad_format = 1; }
        va_end(ap);
        return 0;
}
static char kv_dummy_file[8];   /* never dereferenced: all output goes through the capture stubs (CBMC's stdout may be NULL) */
static FILE* kv_fopen(const char* p, const char* m){ (void)p; (void)m; return (FILE*)kv_dummy_file; }
static int kv_fclose(FILE* f){ (void)f; return 0; }
static time_t kv_time(time_t* t){ if(t){ *t = 0; } return 0; }
static struct tm* kv_localtime_r(const time_t* t, struct tm* r){ (void)t; memset(r, 0, sizeof(*r)); return r; }
static size_t kv_strftime(char* s, size_t max, const char* fmt, const struct tm* tm)
{
        (void)fmt; (void)tm;
        if(max < 8){ return 0; }
        s[0] = 'D'; s[1] = 'A'; s[2] = 'T'; s[3] = 'E'; s[4] = 0;
        return 4;
}
#endif
