/* Contracts for lib/src/aln_controller.c (C07: "recursion on the two sub-rectangles with the boundary states of the
 * chosen transition").  aln_continue() is checked with the recursive calls REPLACED by this contract on the runner:
 * the contract's precondition compares the arguments of the k-th call with what the Hirschberg split prescribes
 * (ghost arrays filled by the harness from the rule below), its post-condition counts the call.
 *
 * The rule (from the definition of the three-state model, not from the code): a transition (from -> to) stands for two
 * consecutive alignment columns, the one ending at the middle row boundary and the next one.  A column in state a consumes
 * one residue of each operand, ga one residue of b only, gb one residue of a only.  With mid the middle row and meet the
 * column boundary after the `from` column:
 *    first  sub-problem : rows [starta, mid - rows(from)),  columns [startb, meet - cols(from)],  ends in unit state `from`
 *    second sub-problem : rows [mid + rows(to), enda),      columns [meet + cols(to), endb],       starts in unit state `to`
 *    path[mid] = meet if from == a ;  path[mid+1] = meet+1 if to == a ;  no other path cell is written.            */
#ifndef ALN_CONTROLLER_CONTRACTS_H
#define ALN_CONTROLLER_CONTRACTS_H
int kv_ncalls;
int kv_exp_starta[2], kv_exp_enda[2], kv_exp_startb[2], kv_exp_endb[2], kv_exp_serial[2];
float kv_exp_f[2][3], kv_exp_b[2][3];
#define K_FEQ(x,y) (*(uint32_t*)&(x) == *(uint32_t*)&(y))
#define K_RUNNER_PRE(m, ser) ( kv_ncalls >= 0 && kv_ncalls < 2 && kv_exp_serial[kv_ncalls] == (ser) && \
        (m)->starta == kv_exp_starta[kv_ncalls] && (m)->enda == kv_exp_enda[kv_ncalls] && (m)->startb == kv_exp_startb[kv_ncalls] && (m)->endb == kv_exp_endb[kv_ncalls] && \
        K_FEQ((m)->f[0].a, kv_exp_f[kv_ncalls][0]) && K_FEQ((m)->f[0].ga, kv_exp_f[kv_ncalls][1]) && K_FEQ((m)->f[0].gb, kv_exp_f[kv_ncalls][2]) && \
        K_FEQ((m)->b[0].a, kv_exp_b[kv_ncalls][0]) && K_FEQ((m)->b[0].ga, kv_exp_b[kv_ncalls][1]) && K_FEQ((m)->b[0].gb, kv_exp_b[kv_ncalls][2]) )
#ifdef KV_CBMC
int aln_runner(struct aln_mem* m)
__CPROVER_requires(K_RUNNER_PRE(m, 0))
__CPROVER_assigns(kv_ncalls)
__CPROVER_ensures(kv_ncalls == __CPROVER_old(kv_ncalls) + 1)
;
int aln_runner_serial(struct aln_mem* m)
__CPROVER_requires(K_RUNNER_PRE(m, 1))
__CPROVER_assigns(kv_ncalls)
__CPROVER_ensures(kv_ncalls == __CPROVER_old(kv_ncalls) + 1)
;
#endif
#endif
