/* Contracts for lib/src/msa_op.c */
#ifndef MSA_OP_CONTRACTS_H
#define MSA_OP_CONTRACTS_H

/* ghost indices: sequence kv_gi, residue kv_gj */
int kv_gi;
int kv_gj;

/* convert_msa_to_internal (C05 "every residue letter it accepts is mapped to a defined residue class";
 * C14 "s[] is a function of the letter up to case and T/U"):
 *   for the arbitrary residue (kv_gi,kv_gj): afterwards s < L, and L is the alphabet size */
#define K_POST_CONVERT_L(ret,msa,type)       ((ret) != OK || (msa)->L == (type))
#define K_POST_CONVERT_RANGE(ret,msa,gi,gj)  ((ret) != OK || (msa)->sequences[gi]->s[gj] < (msa)->L)


#ifdef KV_CBMC
#ifdef KV_CONTRACT_CONVERT2
/* function contract used by the (P) query: msa with exactly 2 sequences built by the harness */
int convert_msa_to_internal(struct msa* msa, int type)
__CPROVER_requires(msa->numseq == 2)
__CPROVER_requires(type == ALPHA_defDNA || type == ALPHA_redPROTEIN || type == ALPHA_ambigiousPROTEIN)
__CPROVER_assigns(msa->L, __CPROVER_object_whole(msa->sequences[0]->s), __CPROVER_object_whole(msa->sequences[1]->s))
__CPROVER_ensures(K_POST_CONVERT_L(__CPROVER_return_value, msa, type))
__CPROVER_ensures(K_POST_CONVERT_RANGE(__CPROVER_return_value, msa, kv_gi, kv_gj))
;
#endif
#endif
#endif
