/* Contracts for lib/src/msa_op.c */
#ifndef MSA_OP_CONTRACTS_H
#define MSA_OP_CONTRACTS_H

/* ghost indices: sequence kv_gi, residue kv_gj */
int kv_gi;
int kv_gj;

/* convert_msa_to_internal (C05 "every residue letter it accepts is mapped to a defined residue class";
 * C14 "s[] is a function of the letter up to case and T/U"):
 *   for the arbitrary residue (kv_gi,kv_gj): afterwards s < L, and L is the alphabet size */
#define K_POST_CONVERT_L(ret,msa,type)       ((ret) != OK || (msa)->L == (type))
#define K_POST_CONVERT_RANGE(ret,msa,gi,gj)  ((ret) != OK || (msa)->sequences[gi]->s[gj] < (msa)->L)


#ifdef KV_CBMC
#ifdef KV_CONTRACT_CONVERT2
/* function contract used by the (P) query: msa with exactly 2 sequences built by the harness */
int convert_msa_to_internal(struct msa* msa, int type)
__CPROVER_requires(msa->numseq == 2)
__CPROVER_requires(type == ALPHA_defDNA || type == ALPHA_redPROTEIN || type == ALPHA_ambigiousPROTEIN)
__CPROVER_assigns(msa->L, __CPROVER_object_whole(msa->sequences[0]->s), __CPROVER_object_whole(msa->sequences[1]->s))
__CPROVER_ensures(K_POST_CONVERT_L(__CPROVER_return_value, msa, type))
__CPROVER_ensures(K_POST_CONVERT_RANGE(__CPROVER_return_value, msa, kv_gi, kv_gj))
;
#endif
#endif
#endif

/* ---------------------------------------------------------------- detect_alphabet (C13, C14, C04)
 * From C13: "Input whose residues are all nucleotide letters (A,C,G,T,U,N in either case) is treated as
 * nucleotide, and input in which at least a quarter of the residues are letters that occur only in proteins
 * is treated as protein".  Residues are letters; other characters of the histogram (gap symbols, padding;
 * C04: "arbitrary gap insertions ... alignments that are mostly gaps") must not matter.
 * Ghost totals are computed by the harness from the histogram:                                    */
#ifndef MSA_OP_CONTRACTS_DETECT
#define MSA_OP_CONTRACTS_DETECT
long long kv_n_letters;   /* all letters                       */
long long kv_n_nuc;       /* A C G T U N (either case)          */
long long kv_n_protonly;  /* letters that occur only in proteins: D E F H I K L M P Q R S V W Y (either case) */

#define K_UP(c) (((c) >= 'a' && (c) <= 'z') ? (c) - 32 : (c))
#define K_LETTER(c) (((c) >= 'A' && (c) <= 'Z') || ((c) >= 'a' && (c) <= 'z'))
#define K_NUC6(c) (K_UP(c)=='A'||K_UP(c)=='C'||K_UP(c)=='G'||K_UP(c)=='T'||K_UP(c)=='U'||K_UP(c)=='N')
#define K_PROTONLY(c) (K_UP(c)=='D'||K_UP(c)=='E'||K_UP(c)=='F'||K_UP(c)=='H'||K_UP(c)=='I'||K_UP(c)=='K'||K_UP(c)=='L'||K_UP(c)=='M'||K_UP(c)=='P'||K_UP(c)=='Q'||K_UP(c)=='R'||K_UP(c)=='S'||K_UP(c)=='V'||K_UP(c)=='W'||K_UP(c)=='Y')

/* letters of the protein model: the 20 amino acids and U (selenocysteine) */
#define K_PROT21(c) (K_UP(c)=='A'||K_UP(c)=='C'||K_UP(c)=='D'||K_UP(c)=='E'||K_UP(c)=='F'||K_UP(c)=='G'||K_UP(c)=='H'||K_UP(c)=='I'||K_UP(c)=='K'||K_UP(c)=='L'||K_UP(c)=='M'||K_UP(c)=='N'||K_UP(c)=='P'||K_UP(c)=='Q'||K_UP(c)=='R'||K_UP(c)=='S'||K_UP(c)=='T'||K_UP(c)=='U'||K_UP(c)=='V'||K_UP(c)=='W'||K_UP(c)=='Y')
#define K_POST_DETECT_NUC(ret,msa)  (!(kv_n_letters > 0 && kv_n_nuc == kv_n_letters) || ((ret) == OK && (msa)->biotype == ALN_BIOTYPE_DNA))
#define K_POST_DETECT_PROT(ret,msa) (!(kv_n_letters > 0 && 4 * kv_n_protonly >= kv_n_letters) || ((ret) == OK && (msa)->biotype == ALN_BIOTYPE_PROTEIN))
#endif
