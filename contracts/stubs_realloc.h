/* Trusted stub: realloc as malloc + byte-wise copy of min(old,new) bytes + free.  CBMC's library model copies with a
 * symbolic-length memcpy, which exhausts memory as soon as a few reallocs are reachable (DESIGN 2.2).  Buffers re-allocated
 * in the capacity-shrunk harnesses are tiny; the stub asserts the old object fits KV_REALLOC_MAX.  CBMC mode only. */
#ifndef KV_STUBS_REALLOC_H
#define KV_STUBS_REALLOC_H
#ifdef KV_CBMC
#ifndef KV_REALLOC_MAX
#define KV_REALLOC_MAX 48
#endif
void* realloc(void* p, size_t n)
{
        char* q = malloc(n);
        size_t i, old, k;
        if(q == (char*)0){ return (void*)0; }
        if(p != (void*)0){
                old = __CPROVER_OBJECT_SIZE(p);
                __CPROVER_assert(__CPROVER_POINTER_OFFSET(p) == 0, "realloc stub: pointer is the start of an allocation");
                __CPROVER_assert(old <= KV_REALLOC_MAX, "realloc stub: old object within KV_REALLOC_MAX");
                k = old < n ? old : n;
#if KV_REALLOC_MAX > 48
                for(i = 0; i < 128; i++){  /* shapes that re-allocate a longer buffer define KV_REALLOC_MAX (<= 128) */
                        if(i < k){ q[i] = ((char*)p)[i]; }
                }
#else
                for(i = 0; i < 48; i++){   /* == KV_REALLOC_MAX, literal so that the driver bounds this loop by itself */
                        if(i < k){ q[i] = ((char*)p)[i]; }
                }
#endif
                free(p);
        }
        return q;
}
#endif
#endif
